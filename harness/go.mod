module verif/harness

go 1.19

require (
	go.uber.org/cff v0.1.0
	go.uber.org/multierr v1.11.0
)

replace go.uber.org/cff => /repo
