// Package vt holds what every verification driver needs: the stamped
// API-level event log, the per-goroutine hook-event collector, goroutine
// inspection and the watchdog.
package vt

import (
	"bytes"
	"encoding/json"
	"fmt"
	"os"
	"regexp"
	"runtime"
	"sort"
	"strconv"
	"strings"
	"sync"
	"time"
)

// GoID returns the current goroutine's id.
func GoID() int64 {
	var buf [64]byte
	n := runtime.Stack(buf[:], false)
	f := bytes.Fields(buf[:n])
	if len(f) < 2 {
		return -1
	}
	id, _ := strconv.ParseInt(string(f[1]), 10, 64)
	return id
}

// Tok is an error token: kind in {"E","X","CTX","INV","?"} and a number
// (error class for "E", otherwise 0).
type Tok struct {
	K string
	N int
}

// MarshalJSON renders a token as ["E",3] so that TLA+ sees <<"E",3>>.
func (t Tok) MarshalJSON() ([]byte, error) {
	return []byte(fmt.Sprintf("[%q,%d]", t.K, t.N)), nil
}

// APIEvent is one line of an API-level trace. All fields are always
// present so that the TLA+ side can read any of them.
type APIEvent struct {
	Ev    string  `json:"ev"`
	Run   int     `json:"run"`
	Stamp int64   `json:"stamp"`
	Job   int     `json:"job"`
	G     int64   `json:"g"`
	Out   string  `json:"out"`
	Kind  string  `json:"kind"`
	Toks  []Tok   `json:"toks"`
	NJ    int     `json:"nj"`
	N     int     `json:"n"`
	Coe   bool    `json:"coe"`
	Deps  [][]int `json:"deps"`
	Cls   []int   `json:"cls"`
	JC    []int   `json:"jc"` // reset: context (1 or 2) each job is enqueued with
	P     int     `json:"p"`
	R     int     `json:"r"`
	W     int     `json:"w"`
	Idle  int     `json:"idle"`
	C     int     `json:"c"`
	Note  string  `json:"note"`
}

// APILog is a linearizable event log: the mutex orders the events, and
// the stamp is the position in that order.
type APILog struct {
	mu  sync.Mutex
	evs []APIEvent
	n   int64
	np  int64 // events other than scheduler state reports
}

// Progress is the number of events logged so far that show the run moving
// (everything but the scheduler's periodic state reports).
func (l *APILog) Progress() int64 {
	l.mu.Lock()
	defer l.mu.Unlock()
	return l.np
}

// Add appends e and returns its stamp.
func (l *APILog) Add(e APIEvent) int64 {
	l.mu.Lock()
	l.n++
	if e.Ev != "state" {
		l.np++
	}
	e.Stamp = l.n
	if e.Toks == nil {
		e.Toks = []Tok{}
	}
	if e.Deps == nil {
		e.Deps = [][]int{}
	}
	if e.Cls == nil {
		e.Cls = []int{}
	}
	if e.JC == nil {
		e.JC = []int{}
	}
	l.evs = append(l.evs, e)
	n := l.n
	l.mu.Unlock()
	return n
}

// Take returns the events recorded so far and clears the log.
func (l *APILog) Take() []APIEvent {
	l.mu.Lock()
	defer l.mu.Unlock()
	evs := l.evs
	l.evs = nil
	return evs
}

// WriteNDJSON appends events to w, one JSON object per line.
func WriteNDJSON(f *os.File, evs []APIEvent) error {
	var buf bytes.Buffer
	enc := json.NewEncoder(&buf)
	for i := range evs {
		if err := enc.Encode(&evs[i]); err != nil {
			return err
		}
	}
	_, err := f.Write(buf.Bytes())
	return err
}

// ---------------------------------------------------------------------------
// Goroutine inspection.

// Goroutine is one entry of a full goroutine dump.
type Goroutine struct {
	ID    int64
	State string
	Text  string
}

var hdrRe = regexp.MustCompile(`^goroutine (\d+) \[([^\]]*)\]:`)

// Dump returns all goroutines of the process.
func Dump() []Goroutine {
	buf := make([]byte, 1<<20)
	for {
		n := runtime.Stack(buf, true)
		if n < len(buf) {
			buf = buf[:n]
			break
		}
		buf = make([]byte, 2*len(buf))
	}
	var out []Goroutine
	for _, blk := range strings.Split(string(buf), "\n\n") {
		m := hdrRe.FindStringSubmatch(blk)
		if m == nil {
			continue
		}
		id, _ := strconv.ParseInt(m[1], 10, 64)
		out = append(out, Goroutine{ID: id, State: m[2], Text: blk})
	}
	return out
}

// SchedulerGoroutines returns the goroutines that have a frame inside the
// cff scheduler package (loop, workers, the spawner).
func SchedulerGoroutines() []Goroutine {
	var out []Goroutine
	for _, g := range Dump() {
		if strings.Contains(g.Text, "go.uber.org/cff/scheduler.") {
			out = append(out, g)
		}
	}
	return out
}

// WaitNoSchedulerGoroutines polls until no goroutine has a scheduler frame
// or the timeout expires; it returns the survivors.
func WaitNoSchedulerGoroutines(timeout time.Duration) []Goroutine {
	deadline := time.Now().Add(timeout)
	d := 50 * time.Microsecond
	for {
		gs := SchedulerGoroutines()
		if len(gs) == 0 || time.Now().After(deadline) {
			return gs
		}
		time.Sleep(d)
		if d < 5*time.Millisecond {
			d *= 2
		}
	}
}

// Signature summarises a set of goroutines (ids, states and top frames) so
// that two dumps can be compared for "nothing moved".
func Signature(gs []Goroutine) string {
	var parts []string
	for _, g := range gs {
		lines := strings.Split(g.Text, "\n")
		top := ""
		if len(lines) > 2 {
			top = lines[1] + lines[2]
		}
		st := g.State
		if i := strings.Index(st, ","); i >= 0 {
			st = st[:i] // drop "N minutes"
		}
		parts = append(parts, fmt.Sprintf("%d|%s|%s", g.ID, st, top))
	}
	sort.Strings(parts)
	return strings.Join(parts, "\n")
}

// AllBlockedOnChannels reports whether every goroutine in gs is parked in a
// channel operation or select.
func AllBlockedOnChannels(gs []Goroutine) bool {
	for _, g := range gs {
		st := g.State
		if i := strings.Index(st, ","); i >= 0 {
			st = st[:i]
		}
		switch st {
		case "chan send", "chan receive", "select", "chan send (nil chan)", "chan receive (nil chan)", "select (no cases)",
			"semacquire", "sync.WaitGroup.Wait", "sync.Cond.Wait", "sync.Mutex.Lock", "sync.RWMutex.Lock", "sync.RWMutex.RLock":
			// parked on a channel or on a sync primitive: only another goroutine can wake it -
			// except the collector's Await, which waits on a condition variable WITH a timeout
			if strings.Contains(g.Text, "vt.(*Collector).Await") {
				return false
			}
		default:
			return false
		}
	}
	return true
}

// ConfirmStuck implements the watchdog's second half: two dumps apart must
// be identical and all goroutines blocked on channels.
func ConfirmStuck(filter func() []Goroutine, apart time.Duration) (bool, []Goroutine) {
	return ConfirmStuckP(filter, apart, nil)
}

// isLoop reports whether g is a scheduler loop goroutine. With an Emitter the
// loop's select has a ticker arm, so the loop is never parked for good; the
// ticker arm changes no scheduling state, so a loop that only ticks while
// every other goroutine is parked and nothing is logged makes no progress.
func isLoop(g Goroutine) bool {
	return strings.Contains(g.Text, "scheduler.(*Scheduler).run(")
}

// ConfirmStuckP is ConfirmStuck with a progress counter (number of events
// logged so far): the verdict "stuck" additionally requires that nothing
// was logged between the two dumps; scheduler loop goroutines only have to
// be the same ones in both dumps, they may be spinning on their ticker.
func ConfirmStuckP(filter func() []Goroutine, apart time.Duration, progress func() int64) (bool, []Goroutine) {
	var p0 int64
	if progress != nil {
		p0 = progress()
	}
	a := filter()
	time.Sleep(apart)
	b := filter()
	if len(b) == 0 {
		return false, b
	}
	if progress != nil && progress() != p0 {
		return false, b
	}
	split := func(gs []Goroutine) (loops []int64, rest []Goroutine) {
		for _, g := range gs {
			if progress != nil && isLoop(g) {
				loops = append(loops, g.ID)
			} else {
				rest = append(rest, g)
			}
		}
		sort.Slice(loops, func(i, j int) bool { return loops[i] < loops[j] })
		return
	}
	la, ra := split(a)
	lb, rb := split(b)
	if fmt.Sprint(la) != fmt.Sprint(lb) || len(rb) == 0 {
		return false, b
	}
	return Signature(ra) == Signature(rb) && AllBlockedOnChannels(rb), b
}

// WaitOrStuck decides a promptness or capacity probe without trusting the
// wall clock: it waits for done; after `first` it asks whether the goroutines
// of interest are provably parked for good (two dumps `apart`, no progress).
// "done": the awaited thing happened; "stuck": it provably never will while
// the probe holds its bodies; "slow": neither within max (a loaded machine),
// which is no verdict.
func WaitOrStuck(done <-chan struct{}, first, apart, max time.Duration, filter func() []Goroutine, progress func() int64) string {
	select {
	case <-done:
		return "done"
	case <-time.After(first):
	}
	end := time.Now().Add(max)
	for time.Now().Before(end) {
		stuck, _ := ConfirmStuckP(filter, apart, progress)
		select {
		case <-done:
			return "done"
		default:
		}
		if stuck {
			return "stuck"
		}
	}
	return "slow"
}
