//go:build verif

package vt

import (
	"math/rand"
	"runtime"
	"sort"
	"strconv"
	"sync"
	"time"

	"go.uber.org/cff/scheduler"
)

// HookEv is one hook event as it goes into a hook trace.
type HookEv struct {
	Ev   string `json:"ev"`
	Job  int    `json:"job"`
	Deps []int  `json:"deps"`
	Err  string `json:"err"`
	P    int    `json:"p"`
	O    int    `json:"o"`
	W    int    `json:"w"`
	R    int    `json:"r"`
	Seq  int64  `json:"seq"`
}

// HookTrace is the per-goroutine record of one scheduler's life.
type HookTrace struct {
	Run     int        `json:"run"`
	NJ      int        `json:"nj"`
	N       int        `json:"n"`
	Coe     bool       `json:"coe"`
	Emit    bool       `json:"emit"`
	Deps    [][]int    `json:"deps"`
	JCtx    []int      `json:"jctx"` // context (1 or 2) per job; filled by the driver
	Caller  []HookEv   `json:"caller"`
	Loop    []HookEv   `json:"loop"`
	Workers [][]HookEv `json:"workers"`
	WorkerG []int64    `json:"workerg"` // goroutine id of each worker (ids grow monotonically: birth order)
	Note    string     `json:"note"`
}

type schedRec struct {
	jobs  map[*scheduler.ScheduledJob]int
	byG   map[int64][]HookEv
	n     int
	coe   bool
	emit  bool
	depsL [][]int
	id    int
}

// Collector receives hook events of all schedulers in the process, keeps
// them per scheduler and per goroutine, and optionally perturbs the
// schedule with seeded delays at hook points.
type Collector struct {
	mu     sync.Mutex
	scheds map[uintptr]*schedRec
	done   []*schedRec
	seq    int64
	rng    *rand.Rand

	// Perturb: probability (0..1) of delaying at a perturbation point and
	// the maximal delay in microseconds.
	PerturbP   float64
	PerturbMax int
	// Points at which to perturb.
	Points map[string]bool
	// Focus: one long delay at the FocusNth occurrence of hook event FocusEv since the last
	// ResetSeen - widens the window behind ONE chosen step of the scheduler by orders of magnitude,
	// so that what the other goroutines do "in between" is whole API calls, not instructions.
	FocusEv    string
	FocusNth   int
	FocusDelay time.Duration
	focusSeen  int

	// seen counts events by "ev:job" for Await.
	seen map[string]int
	cond *sync.Cond
}

// Await blocks until the event ev has been reported for job (by any scheduler)
// at least n times since the last Reset, or the timeout expires. It reports
// whether the event was seen.
func (c *Collector) Await(ev string, job, n int, timeout time.Duration) bool {
	key := ev + ":" + strconv.Itoa(job)
	deadline := time.Now().Add(timeout)
	c.mu.Lock()
	defer c.mu.Unlock()
	for c.seen[key] < n {
		left := time.Until(deadline)
		if left <= 0 {
			return false
		}
		t := time.AfterFunc(left, func() { c.cond.Broadcast() })
		c.cond.Wait()
		t.Stop()
	}
	return true
}

// ResetSeen forgets the events counted for Await.
func (c *Collector) ResetSeen() {
	c.mu.Lock()
	c.seen = map[string]int{}
	c.focusSeen = 0
	c.mu.Unlock()
}

// NewCollector creates a collector and installs it as the scheduler hook.
func NewCollector(seed int64) *Collector {
	c := &Collector{scheds: map[uintptr]*schedRec{}, rng: rand.New(rand.NewSource(seed)),
		Points: map[string]bool{"l_select": true, "w_end": true, "c_enq_begin": true, "l_dispatch": true, "w_recv": true, "l_recv_done": true}}
	c.seen = map[string]int{}
	c.cond = sync.NewCond(&c.mu)
	scheduler.VerifHook = c.hook
	return c
}

func (c *Collector) hook(e scheduler.VerifEvent) {
	g := GoID()
	c.mu.Lock()
	if e.Ev == "s_new" {
		c.scheds[e.Sched] = &schedRec{jobs: map[*scheduler.ScheduledJob]int{}, byG: map[int64][]HookEv{},
			n: e.A, coe: e.B == 1, emit: e.C == 1, id: len(c.done) + len(c.scheds) + 1}
	}
	s := c.scheds[e.Sched]
	if s == nil {
		c.mu.Unlock()
		return
	}
	c.seq++
	ev := HookEv{Ev: e.Ev, Deps: []int{}, Err: scheduler.VerifClassify(e.Err), P: e.A, O: e.B, W: e.C, R: e.D, Seq: c.seq}
	if e.Job != nil {
		if e.Ev == "c_enq_begin" {
			s.jobs[e.Job] = len(s.jobs) + 1
			for _, d := range e.Deps {
				ev.Deps = append(ev.Deps, s.jobs[d])
			}
			dl := append([]int{}, ev.Deps...)
			s.depsL = append(s.depsL, dl)
		}
		ev.Job = s.jobs[e.Job]
	}
	if e.Ev != "s_new" && e.Ev != "l_select" {
		s.byG[g] = append(s.byG[g], ev)
		c.seen[e.Ev+":"+strconv.Itoa(ev.Job)]++
		c.cond.Broadcast()
	}
	var delay time.Duration
	yield := false
	if c.PerturbP > 0 && c.Points[e.Ev] && c.rng.Float64() < c.PerturbP {
		if c.PerturbMax > 0 {
			delay = time.Duration(c.rng.Intn(c.PerturbMax+1)) * time.Microsecond
		}
		yield = true
	}
	if c.FocusEv != "" && e.Ev == c.FocusEv {
		c.focusSeen++
		if c.focusSeen == c.FocusNth {
			delay = c.FocusDelay
		}
	}
	c.mu.Unlock()
	if delay > 0 {
		time.Sleep(delay)
	} else if yield {
		runtime.Gosched()
	}
}

// TakeAll removes and returns the traces of all schedulers seen so far.
// Call it only when those schedulers are quiescent.
func (c *Collector) TakeAll(run int) []HookTrace {
	c.mu.Lock()
	defer c.mu.Unlock()
	var recs []*schedRec
	for k, s := range c.scheds {
		recs = append(recs, s)
		delete(c.scheds, k)
	}
	sort.Slice(recs, func(i, j int) bool { return recs[i].id < recs[j].id })
	var out []HookTrace
	for _, s := range recs {
		out = append(out, s.trace(run))
	}
	return out
}

func (s *schedRec) trace(run int) HookTrace {
	t := HookTrace{Run: run, NJ: len(s.jobs), N: s.n, Coe: s.coe, Emit: s.emit, Deps: s.depsL, JCtx: []int{},
		Caller: []HookEv{}, Loop: []HookEv{}, Workers: [][]HookEv{}, WorkerG: []int64{}}
	if t.Deps == nil {
		t.Deps = [][]int{}
	}
	type wk struct {
		first int64
		g     int64
		evs   []HookEv
	}
	var wks []wk
	for g, evs := range s.byG {
		if len(evs) == 0 {
			continue
		}
		switch evs[0].Ev[0] {
		case 'c':
			// Several caller goroutines (concurrent Enqueue) are merged by
			// sequence number; the trace spec assumes one caller.
			t.Caller = append(t.Caller, evs...)
		case 'l':
			t.Loop = append(t.Loop, evs...)
		case 'w':
			wks = append(wks, wk{evs[0].Seq, g, evs})
		}
	}
	sort.Slice(t.Caller, func(i, j int) bool { return t.Caller[i].Seq < t.Caller[j].Seq })
	sort.Slice(t.Loop, func(i, j int) bool { return t.Loop[i].Seq < t.Loop[j].Seq })
	// Workers are numbered by the sequence number of their first recorded event: normally the initial N
	// first, then the replacements in order of birth.  This is a heuristic (an initial worker may log its
	// first event after a replacement was born, and the spawner may start an initial worker after a
	// replacement was born); the goroutine ids are kept so that the validator can try birth order too.
	sort.Slice(wks, func(i, j int) bool { return wks[i].first < wks[j].first })
	for _, w := range wks {
		t.Workers = append(t.Workers, w.evs)
		t.WorkerG = append(t.WorkerG, w.g)
	}
	return t
}
