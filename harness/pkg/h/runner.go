package h

import (
	"bufio"
	"encoding/json"
	"flag"
	"fmt"
	"os"
	"runtime"
	"strings"
	"sync"
	"sync/atomic"
	"time"

	"verif/harness/pkg/vt"
)

// Job is one execution request: which rendered function, under which scenario.
type Job struct {
	Exec int    `json:"exec"`
	Prog string `json:"prog"`
	Sc   *Scen  `json:"sc"`
	Par  int    `json:"par"` // run this many copies of the execution concurrently (re-entrancy)
}

// Main is the main function of a rendered module. registry maps program
// names to rendered functions.
func Main(registry map[string]func(*X)) {
	progsPath := flag.String("progs", "", "programs.json")
	scenPath := flag.String("scen", "", "scenario file (ndjson of Job)")
	outPath := flag.String("out", "", "trace file")
	progress := flag.String("progress", "", "progress file: the exec number is written before each execution")
	deadline := flag.Duration("deadline", 5*time.Second, "watchdog per execution")
	leakcheck := flag.Bool("leakcheck", true, "check for surviving scheduler goroutines after each execution")
	bare := flag.Bool("bare", false, "race-detector mode: no event log, no shared counters, nothing that synchronises with the generated code")
	flag.Parse()

	var progs []*Prog
	b, err := os.ReadFile(*progsPath)
	must(err)
	must(json.Unmarshal(b, &progs))
	byName := map[string]*Prog{}
	for _, p := range progs {
		fix(p)
		byName[p.Name] = p
	}
	sf, err := os.Open(*scenPath)
	must(err)
	defer sf.Close()
	out, err := os.Create(*outPath)
	must(err)
	w := bufio.NewWriterSize(out, 1<<20)
	defer func() { w.Flush(); out.Close() }()
	var pf *os.File
	if *progress != "" {
		pf, err = os.Create(*progress)
		must(err)
	}
	enc := json.NewEncoder(w)
	sc := bufio.NewScanner(sf)
	sc.Buffer(make([]byte, 1<<20), 1<<26)
	abnormal := 0
	n := 0
	for sc.Scan() {
		line := strings.TrimSpace(sc.Text())
		if line == "" {
			continue
		}
		var job Job
		must(json.Unmarshal([]byte(line), &job))
		p := byName[job.Prog]
		fn := registry[job.Prog]
		if p == nil || fn == nil {
			fmt.Fprintf(os.Stderr, "unknown program %q\n", job.Prog)
			os.Exit(2)
		}
		if pf != nil {
			fmt.Fprintf(pf, "%d\n", job.Exec)
		}
		par := job.Par
		if par < 1 {
			par = 1
		}
		xs := make([]*X, par)
		var wg sync.WaitGroup
		bad := false
		var badmu sync.Mutex
		for c := 0; c < par; c++ {
			s := *job.Sc
			s.EffConc = effConc(p, &s)
			s.EffCoe = effCoe(p, &s)
			x := NewX(job.Exec*100+c, p, &s)
			if *bare {
				x.MakeBare()
			}
			x.PrepareBarrier()
			xs[c] = x
			wg.Add(1)
			go func(x *X) {
				defer wg.Done()
				if runOne(x, fn, *deadline) {
					badmu.Lock()
					bad = true
					badmu.Unlock()
				}
			}(x)
		}
		wg.Wait()
		// Quiescence: every started user function returns (none blocks), then all
		// scheduler goroutines have to go away.
		if *bare {
			time.Sleep(3 * time.Millisecond) // longer than any body of a bare scenario
		}
		for i := 0; i < 3000 && !*bare; i++ {
			busy := false
			for _, x := range xs {
				if atomic.LoadInt32(&x.InBody) > 0 {
					busy = true
				}
			}
			if !busy {
				break
			}
			time.Sleep(time.Millisecond)
		}
		if *leakcheck && !bad {
			left := vt.WaitNoSchedulerGoroutines(3 * time.Second)
			if len(left) > 0 {
				stuck, gs := vt.ConfirmStuck(vt.SchedulerGoroutines, time.Second)
				if len(gs) > 0 {
					note := summarise(gs)
					if !stuck {
						note = "not provably stuck: " + note
					}
					xs[0].add(Ev{Ev: "leak", Note: note, Idx: -1})
					bad = true
				}
			}
		}
		for _, x := range xs {
			x.add(Ev{Ev: "over", Idx: -1})
			x.Close()
			for _, e := range x.Events() {
				must(enc.Encode(&e))
			}
		}
		n++
		if bad {
			abnormal++
			if abnormal >= 3 {
				break
			}
		}
	}
	fmt.Printf("runner: executions=%d abnormal=%d\n", n, abnormal)
}

func fix(p *Prog) {
	if p.Params == nil {
		p.Params = []int{}
	}
	if p.Results == nil {
		p.Results = []int{}
	}
	for i := range p.Units {
		if p.Units[i].Ins == nil {
			p.Units[i].Ins = []int{}
		}
		if p.Units[i].Outs == nil {
			p.Units[i].Outs = []int{}
		}
	}
}

func effConc(p *Prog, s *Scen) int {
	if p.HasConc && s.Conc > 0 {
		return s.Conc
	}
	n := runtime.GOMAXPROCS(0)
	if n < 4 {
		n = 4
	}
	return n
}

func effCoe(p *Prog, s *Scen) bool {
	switch p.CoeMode {
	case "true":
		return true
	case "expr":
		return s.Coe
	}
	return false
}

// runOne executes the rendered function under the watchdog. It reports
// whether the execution was abnormal (hang).
func runOne(x *X, fn func(*X), deadline time.Duration) bool {
	finished := make(chan struct{})
	go func() {
		defer close(finished)
		defer func() {
			if v := recover(); v != nil {
				x.Propagated(v)
			}
		}()
		x.Begin()
		fn(x)
	}()
	if x.S.Hold != "" && !x.Bare {
		// promptness probe: cancel once the held body runs; the directive must return while it is held
		go func() {
			select {
			case <-x.heldc:
			case <-finished:
				close(x.holdc)
				return
			}
			time.Sleep(200 * time.Microsecond)
			x.Cancel()
			// not returning is decided by the goroutine dump, never by the clock alone
			switch vt.WaitOrStuck(finished, 1500*time.Millisecond, time.Second, 12*time.Second, interesting, x.progress) {
			case "stuck":
				x.add(Ev{Ev: "notprompt", Idx: -1, Note: "held " + x.S.Hold})
			case "slow":
				x.add(Ev{Ev: "info", Idx: -1, Note: "promptness probe skipped: neither returned nor provably stuck"})
			}
			close(x.holdc)
		}()
	}
	if x.S.Barrier && !x.Bare {
		go func() {
			if x.barNeed > 0 {
				v := vt.WaitOrStuck(x.barFull, 1500*time.Millisecond, time.Second, 12*time.Second, interesting,
					func() int64 { return x.progress() + int64(atomic.LoadInt32(&x.maxBar)) })
				x.barVerdict.Store(v)
			}
			close(x.barRelease)
		}()
	}
	select {
	case <-finished:
		return false
	case <-time.After(deadline):
	}
	stuck, gs := vt.ConfirmStuckP(interesting, 2*time.Second, x.progress)
	select {
	case <-finished:
		return false
	default:
	}
	if stuck {
		x.add(Ev{Ev: "hang", Note: summarise(gs), Idx: -1})
		return true
	}
	select {
	case <-finished:
		return false
	case <-time.After(10 * deadline):
		x.add(Ev{Ev: "slow", Note: "directive neither returned nor provably stuck", Idx: -1})
		return true
	}
}

// interesting lists the goroutines the watchdog and the probes look at, without the caller.
func interesting() []vt.Goroutine {
	var out []vt.Goroutine
	self := vt.GoID()
	for _, g := range vt.Dump() {
		if g.ID == self {
			continue
		}
		if strings.Contains(g.Text, "go.uber.org/cff/scheduler.") || strings.Contains(g.Text, "h.runOne.func1") {
			out = append(out, g)
		}
	}
	return out
}

func (x *X) progress() int64 { x.mu.Lock(); defer x.mu.Unlock(); return x.n }

func summarise(gs []vt.Goroutine) string {
	var sb strings.Builder
	for i, g := range gs {
		if i >= 6 {
			break
		}
		fn := ""
		for _, l := range strings.Split(g.Text, "\n")[1:] {
			if strings.Contains(l, "cff/scheduler.") {
				fn = strings.TrimSpace(l)
				if k := strings.Index(fn, "("); k > 0 {
					fn = fn[:k]
				}
				break
			}
		}
		fmt.Fprintf(&sb, "g%d[%s]@%s; ", g.ID, g.State, fn)
	}
	return sb.String()
}

func must(err error) {
	if err != nil {
		fmt.Fprintln(os.Stderr, "runner:", err)
		os.Exit(2)
	}
}
