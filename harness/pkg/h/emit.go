package h

import (
	"context"
	"strconv"
	"strings"
	"sync"
	"time"

	"go.uber.org/cff"

	"verif/harness/pkg/vt"
)

// Leaf is a recording cff.Emitter. Every callback is logged with the leaf's
// number, so that each leaf's event multiset can be compared with what it
// would receive alone.
type Leaf struct {
	x *X
	n int
}

// Emitter returns recording leaf n of the execution.
func (x *X) Emitter(n int) cff.Emitter { return &Leaf{x: x, n: n} }

// Stack2 returns a nested EmitterStack of two leaves wrapped once more, to
// exercise nesting: EmitterStack(EmitterStack(a), b).
func (x *X) Stack2(a, b int) cff.Emitter {
	return cff.EmitterStack(cff.EmitterStack(x.Emitter(a)), x.Emitter(b))
}

// Nop returns cff.NopEmitter() (an emitter that must not influence the others).
func (x *X) Nop() cff.Emitter { return cff.NopEmitter() }

func unitOfName(name string) int {
	// instrument names are rendered as "u<id>"; anything else (auto-instrument) is 0
	if strings.HasPrefix(name, "u") {
		if n, err := strconv.Atoi(name[1:]); err == nil {
			return n
		}
	}
	return 0
}

type flowRec struct {
	l    *Leaf
	name string
}

func (l *Leaf) emit(kind, name string, u int, toks []vt.Tok) {
	l.x.add(Ev{Ev: "emit", Leaf: l.n, Kind: kind, Name: name, U: u, Errs: toks, G: vt.GoID(), Idx: -1})
}

func (l *Leaf) errToks(err error) []vt.Tok {
	if err == nil {
		return []vt.Tok{{K: "nil"}}
	}
	_, toks := l.x.classify(err)
	if toks == nil {
		toks = []vt.Tok{{K: "CTX"}}
	}
	return toks
}

// FlowInit implements cff.Emitter.
func (l *Leaf) FlowInit(info *cff.FlowInfo) cff.FlowEmitter {
	return &flowRec{l: l, name: info.Name}
}
func (f *flowRec) FlowSuccess(context.Context) { f.l.emit("FlowSuccess", f.name, 0, nil) }
func (f *flowRec) FlowError(_ context.Context, err error) {
	f.l.x.mu.Lock()
	f.l.x.ferr[f.l.n] = err
	f.l.x.mu.Unlock()
	f.l.emit("FlowError", f.name, 0, f.l.errToks(err))
}
func (f *flowRec) FlowDone(context.Context, time.Duration) { f.l.emit("FlowDone", f.name, 0, nil) }

type parRec struct {
	l    *Leaf
	name string
}

// ParallelInit implements cff.Emitter.
func (l *Leaf) ParallelInit(info *cff.ParallelInfo) cff.ParallelEmitter {
	return &parRec{l: l, name: info.Name}
}
func (f *parRec) ParallelSuccess(context.Context) { f.l.emit("ParallelSuccess", f.name, 0, nil) }
func (f *parRec) ParallelError(_ context.Context, err error) {
	f.l.x.mu.Lock()
	f.l.x.ferr[f.l.n] = err
	f.l.x.mu.Unlock()
	f.l.emit("ParallelError", f.name, 0, f.l.errToks(err))
}
func (f *parRec) ParallelDone(context.Context, time.Duration) {
	f.l.emit("ParallelDone", f.name, 0, nil)
}

type taskRec struct {
	l    *Leaf
	name string
	u    int
}

// TaskInit implements cff.Emitter.
func (l *Leaf) TaskInit(info *cff.TaskInfo, _ *cff.DirectiveInfo) cff.TaskEmitter {
	return &taskRec{l: l, name: info.Name, u: unitOfName(info.Name)}
}
func (t *taskRec) TaskSuccess(context.Context) { t.l.emit("TaskSuccess", t.name, t.u, nil) }
func (t *taskRec) TaskError(_ context.Context, err error) {
	t.l.emit("TaskError", t.name, t.u, t.l.errToks(err))
}
func (t *taskRec) TaskErrorRecovered(_ context.Context, err error) {
	t.l.emit("TaskErrorRecovered", t.name, t.u, t.l.errToks(err))
}
func (t *taskRec) TaskSkipped(_ context.Context, err error) {
	t.l.emit("TaskSkipped", t.name, t.u, t.l.errToks(err))
}
func (t *taskRec) TaskPanic(_ context.Context, v interface{}) {
	t.l.emit("TaskPanic", t.name, t.u, []vt.Tok{t.l.x.PanicTok(v)})
}
func (t *taskRec) TaskPanicRecovered(_ context.Context, v interface{}) {
	t.l.emit("TaskPanicRecovered", t.name, t.u, []vt.Tok{t.l.x.PanicTok(v)})
}
func (t *taskRec) TaskDone(context.Context, time.Duration) { t.l.emit("TaskDone", t.name, t.u, nil) }

type schedRec struct{}

// SchedulerInit implements cff.Emitter. Scheduler state is checked at the
// scheduler level (C19); here the records are dropped.
func (l *Leaf) SchedulerInit(*cff.SchedulerInfo) cff.SchedulerEmitter { return schedRec{} }
func (schedRec) EmitScheduler(cff.SchedulerState)                     {}

// ---------------------------------------------------------------------------
// Emitters shared between executions.  A program may pass the same emitter
// value (here: a nested EmitterStack of three leaves, built once per process)
// to every execution, next to an emitter of its own.  A shared leaf finds
// the execution an event belongs to through the context the generated code
// hands to every callback.

type sharedLeaf struct{ n int }

var (
	teamOnce sync.Once
	team     cff.Emitter
)

// Team returns the process-wide stack EmitterStack(EmitterStack(s1, s2), s3).
func Team() cff.Emitter {
	teamOnce.Do(func() {
		team = cff.EmitterStack(cff.EmitterStack(&sharedLeaf{1}, &sharedLeaf{2}), &sharedLeaf{3})
	})
	return team
}

func (s *sharedLeaf) leaf(ctx context.Context) *Leaf {
	if x := From(ctx); x != nil {
		return &Leaf{x: x, n: s.n}
	}
	return nil
}

type sharedFlow struct {
	s    *sharedLeaf
	name string
}

func (s *sharedLeaf) FlowInit(info *cff.FlowInfo) cff.FlowEmitter { return &sharedFlow{s, info.Name} }
func (f *sharedFlow) FlowSuccess(ctx context.Context) {
	if l := f.s.leaf(ctx); l != nil {
		(&flowRec{l, f.name}).FlowSuccess(ctx)
	}
}
func (f *sharedFlow) FlowError(ctx context.Context, err error) {
	if l := f.s.leaf(ctx); l != nil {
		(&flowRec{l, f.name}).FlowError(ctx, err)
	}
}
func (f *sharedFlow) FlowDone(ctx context.Context, d time.Duration) {
	if l := f.s.leaf(ctx); l != nil {
		(&flowRec{l, f.name}).FlowDone(ctx, d)
	}
}

type sharedPar struct {
	s    *sharedLeaf
	name string
}

func (s *sharedLeaf) ParallelInit(info *cff.ParallelInfo) cff.ParallelEmitter {
	return &sharedPar{s, info.Name}
}
func (f *sharedPar) ParallelSuccess(ctx context.Context) {
	if l := f.s.leaf(ctx); l != nil {
		(&parRec{l, f.name}).ParallelSuccess(ctx)
	}
}
func (f *sharedPar) ParallelError(ctx context.Context, err error) {
	if l := f.s.leaf(ctx); l != nil {
		(&parRec{l, f.name}).ParallelError(ctx, err)
	}
}
func (f *sharedPar) ParallelDone(ctx context.Context, d time.Duration) {
	if l := f.s.leaf(ctx); l != nil {
		(&parRec{l, f.name}).ParallelDone(ctx, d)
	}
}

type sharedTask struct {
	s    *sharedLeaf
	name string
}

func (s *sharedLeaf) TaskInit(info *cff.TaskInfo, _ *cff.DirectiveInfo) cff.TaskEmitter {
	return &sharedTask{s, info.Name}
}
func (t *sharedTask) rec(ctx context.Context) *taskRec {
	if l := t.s.leaf(ctx); l != nil {
		return &taskRec{l: l, name: t.name, u: unitOfName(t.name)}
	}
	return nil
}
func (t *sharedTask) TaskSuccess(ctx context.Context) {
	if r := t.rec(ctx); r != nil {
		r.TaskSuccess(ctx)
	}
}
func (t *sharedTask) TaskError(ctx context.Context, err error) {
	if r := t.rec(ctx); r != nil {
		r.TaskError(ctx, err)
	}
}
func (t *sharedTask) TaskErrorRecovered(ctx context.Context, err error) {
	if r := t.rec(ctx); r != nil {
		r.TaskErrorRecovered(ctx, err)
	}
}
func (t *sharedTask) TaskSkipped(ctx context.Context, err error) {
	if r := t.rec(ctx); r != nil {
		r.TaskSkipped(ctx, err)
	}
}
func (t *sharedTask) TaskPanic(ctx context.Context, v interface{}) {
	if r := t.rec(ctx); r != nil {
		r.TaskPanic(ctx, v)
	}
}
func (t *sharedTask) TaskPanicRecovered(ctx context.Context, v interface{}) {
	if r := t.rec(ctx); r != nil {
		r.TaskPanicRecovered(ctx, v)
	}
}
func (t *sharedTask) TaskDone(ctx context.Context, d time.Duration) {
	if r := t.rec(ctx); r != nil {
		r.TaskDone(ctx, d)
	}
}

func (s *sharedLeaf) SchedulerInit(*cff.SchedulerInfo) cff.SchedulerEmitter { return schedRec{} }
