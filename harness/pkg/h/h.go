// Package h is the runtime that rendered cff programs call into. Every user
// function of a rendered Flow/Parallel (task, predicate, slice/map function,
// End hook), every argument expression and every emitter callback reports to
// an execution context X, which keeps a linearizable (mutex-ordered) event
// log; the log is the API-level trace validated against spec/DirTrace.tla.
//
// Nothing here uses the scheduler hooks: the generated code is observed only
// through what a user of cff can see.
package h

import (
	"context"
	"errors"
	"fmt"
	"reflect"
	"runtime"
	"strconv"
	"strings"
	"sync"
	"sync/atomic"
	"time"

	"go.uber.org/cff"
	"go.uber.org/multierr"

	"verif/harness/pkg/vt"
)

// Ev is one line of a directive-level trace. All fields are always present.
type Ev struct {
	Ev    string   `json:"ev"`
	Exec  int      `json:"exec"`           // execution number (one call of one rendered function under one scenario)
	Stamp int64    `json:"stamp"`          // position in the execution's log
	U     int      `json:"u"`              // unit (user function) id; 0 if none
	Idx   int      `json:"idx"`            // element index / key for slice and map functions, -1 otherwise
	K     int      `json:"k"`              // argument number for "arg"
	G     int64    `json:"g"`              // goroutine id
	Toks  []int    `json:"toks"`           // argument tokens / result tokens
	Out   string   `json:"out"`            // outcome of a unit: ok err panic true false
	Kind  string   `json:"kind"`           // ret: nil ctx errs ; emit: event name
	Errs  []vt.Tok `json:"errs"`           // decomposition of an error
	Leaf  int      `json:"leaf"`           // emitter leaf
	Name  string   `json:"name"`           // emitter: task/flow name as reported
	Same  bool     `json:"same"`           // emit FlowError/ParallelError: the error is the one returned (filled at ret)
	CtxOK bool     `json:"ctxok"`          // the unit received the directive's context
	Prog  *Prog    `json:"prog,omitempty"` // reset: the abstract program
	Sc    *Scen    `json:"sc,omitempty"`   // reset: the scenario
	Note  string   `json:"note"`
}

// Unit describes one user function of a rendered directive.
type Unit struct {
	ID      int    `json:"id"`
	Kind    string `json:"kind"` // task pred ptask selem send melem mend
	Ins     []int  `json:"ins"`  // flow: value types consumed, in parameter order
	Outs    []int  `json:"outs"` // flow: value types produced, in result order
	HasErr  bool   `json:"haserr"`
	WantCtx bool   `json:"wantctx"`
	Pred    int    `json:"pred"`            // task: unit id of its predicate, 0 if none
	Task    int    `json:"task"`            // pred: the task it guards
	FB      bool   `json:"fb"`              // task: has FallbackWith
	FBNil   []int  `json:"fbnil,omitempty"` // task: 1 for each output whose fallback is spelled as the literal nil
	Invoke  bool   `json:"invoke"`          // task: Invoke(true)
	Instr   bool   `json:"instr"`           // task: instrumented
	Coll    int    `json:"coll"`            // selem/send/melem/mend: collection number
	Len     int    `json:"len"`             // selem/melem: size of the collection (-1 = nil)
	WithIdx bool   `json:"withidx"`         // selem: function takes the index
	End     int    `json:"end"`             // selem/melem: unit id of the End hook, 0 if none
	NArgs   int    `json:"nargs"`           // number of h.Arg-wrapped expressions this unit's option contributes (informational)
}

// Prog is the abstract program a rendered function implements.
type Prog struct {
	Name    string `json:"name"`
	Dir     string `json:"dir"` // flow | parallel
	NTypes  int    `json:"ntypes"`
	Params  []int  `json:"params"`  // flow: types given by cff.Params
	Results []int  `json:"results"` // flow: types taken by cff.Results
	Units   []Unit `json:"units"`
	NArgs   int    `json:"nargsexpr"` // number of wrapped argument expressions, numbered 1..NArgs in source order
	Leaves  int    `json:"leaves"`    // number of recording emitter leaves
	Instr   bool   `json:"instr"`     // directive instrumented (InstrumentFlow/InstrumentParallel)
	HasConc bool   `json:"hasconc"`   // cff.Concurrency given
	CoeMode string `json:"coemode"`   // parallel: none | true | false | expr
	AutoIns bool   `json:"autoins"`   // generated with -auto-instrument
	Mode    string `json:"mode"`      // generation mode
}

// Scen is the scenario of one execution.
type Scen struct {
	Out      map[string]string `json:"out"`      // "u" or "u:idx" -> ok err panic true false   (default ok / true)
	PanicK   map[string]string `json:"panick"`   // "u" or "u:idx" -> str | err | rt | struct
	DelayUs  map[string]int    `json:"delayus"`  // body duration
	Conc     int               `json:"conc"`     // value of the Concurrency argument
	Coe      bool              `json:"coe"`      // value of a ContinueOnError expression
	Cancel   string            `json:"cancel"`   // none | before | unit | timer | deadline
	CancelU  string            `json:"cancelu"`  // for unit: "u" or "u:idx" that cancels in its body
	CancelUs int               `json:"cancelus"` // timer / deadline
	// Hold: "u" or "u:idx" of a user function whose body blocks until the runner releases it; the runner
	// cancels the context once that body has started and releases it only after the directive has returned
	// (or after 1.5 s): the directive must return promptly, without waiting for the running function (C09).
	Hold string `json:"hold"`
	// Barrier: capacity probe (C03): every user function that depends on nothing (parallel tasks, slice and map
	// elements, flow tasks fed by Params only) waits until min(limit, number of such functions) of them are in
	// flight at once, or 1.5 s; the most that were ever in flight together is logged as a "capacity" event.
	Barrier bool `json:"barrier"`
	EffConc int  `json:"effconc"` // effective concurrency limit (filled by the driver)
	EffCoe  bool `json:"effcoe"`
}

type ctxKey struct{}

// X is the context of one execution of a rendered function.
type X struct {
	Exec       int
	P          *Prog
	S          *Scen
	mu         sync.Mutex
	evs        []Ev
	n          int64
	ctx        context.Context
	cancel     context.CancelFunc
	cbegun     bool
	cdone      bool
	over       int32
	errs       map[string]error
	pvals      map[string]interface{}
	ferr       map[int]error // leaf -> error passed to FlowError/ParallelError
	units      map[int]*Unit
	InBody     int32
	barNeed    int32
	inBar      int32
	maxBar     int32
	barFull    chan struct{}
	barRelease chan struct{} // closed by the runner when the barrier cannot fill
	barVerdict atomic.Value
	barOnce    sync.Once
	holdc      chan struct{}
	heldc      chan struct{}
	heldOnce   sync.Once
	// Bare: executions under the race detector that must not synchronise with the generated code: no event
	// log, no counters; user functions only sleep and return / panic.
	Bare   bool
	caller int64
}

// NewX prepares an execution.
func NewX(exec int, p *Prog, s *Scen) *X {
	x := &X{Exec: exec, P: p, S: s, barFull: make(chan struct{}), barRelease: make(chan struct{}), holdc: make(chan struct{}), heldc: make(chan struct{}), errs: map[string]error{}, pvals: map[string]interface{}{}, ferr: map[int]error{}, units: map[int]*Unit{}}
	for i := range p.Units {
		x.units[p.Units[i].ID] = &p.Units[i]
	}
	base := context.WithValue(context.Background(), ctxKey{}, x)
	x.ctx, x.cancel = context.WithCancel(base)
	return x
}

// independent reports whether unit u depends on no other user function.
func (x *X) independent(u int) bool {
	un := x.units[u]
	if un == nil {
		return false
	}
	switch un.Kind {
	case "ptask", "selem", "melem":
		return true
	case "task":
		if un.Pred != 0 {
			return false
		}
		for _, ty := range un.Ins {
			isParam := false
			for _, p := range x.P.Params {
				if p == ty {
					isParam = true
				}
			}
			if !isParam {
				return false
			}
		}
		return true
	}
	return false
}

// PrepareBarrier computes how many independent functions must be in flight together.
func (x *X) PrepareBarrier() {
	if !x.S.Barrier {
		return
	}
	n := 0
	for i := range x.P.Units {
		u := &x.P.Units[i]
		if !x.independent(u.ID) {
			continue
		}
		if u.Kind == "selem" || u.Kind == "melem" {
			if u.Len > 0 {
				n += u.Len
			}
		} else {
			n++
		}
	}
	if n > x.S.EffConc {
		n = x.S.EffConc
	}
	x.barNeed = int32(n)
}

// MakeBare switches the execution to bare mode (see X.Bare).
func (x *X) MakeBare() {
	x.Bare = true
	for i := range x.P.Units {
		u := &x.P.Units[i]
		n := 0
		if u.Kind == "selem" || u.Kind == "melem" {
			n = u.Len
		}
		x.errs[key(u.ID, -1)] = fmt.Errorf("error of unit %d", u.ID)
		for j := 0; j < n; j++ {
			x.errs[key(u.ID, j)] = fmt.Errorf("error of unit %d:%d", u.ID, j)
		}
	}
}

// From returns the execution a context belongs to (for user functions that
// are not closures over x).
func From(ctx context.Context) *X {
	x, _ := ctx.Value(ctxKey{}).(*X)
	return x
}

func (x *X) add(e Ev) {
	if x.Bare {
		return
	}
	x.mu.Lock()
	x.n++
	e.Stamp, e.Exec = x.n, x.Exec
	if e.Toks == nil {
		e.Toks = []int{}
	}
	if e.Errs == nil {
		e.Errs = []vt.Tok{}
	}
	x.evs = append(x.evs, e)
	x.mu.Unlock()
}

// Events returns the log.
func (x *X) Events() []Ev {
	x.mu.Lock()
	defer x.mu.Unlock()
	return x.evs
}

// Close marks the execution as judged (late timers stop logging).
func (x *X) Close() { atomic.StoreInt32(&x.over, 1); x.cancel() }

// Cancel cancels the directive's context, stamping before and after.
func (x *X) Cancel() {
	x.mu.Lock()
	begun := x.cbegun
	x.cbegun = true
	x.mu.Unlock()
	if !begun && atomic.LoadInt32(&x.over) == 0 {
		x.add(Ev{Ev: "cancel_begin"})
	}
	x.cancel()
	x.mu.Lock()
	first := !x.cdone
	x.cdone = true
	x.mu.Unlock()
	if first && atomic.LoadInt32(&x.over) == 0 {
		x.add(Ev{Ev: "cancel"})
	}
}

// Begin is called by the driver immediately before the rendered function.
func (x *X) Begin() {
	x.caller = vt.GoID()
	x.add(Ev{Ev: "reset", Prog: x.P, Sc: x.S, G: x.caller})
	if x.S.Cancel == "deadline" {
		// The context ends by its deadline: it may be done from now on; a watcher
		// stamps the completion after Done() is closed.
		x.add(Ev{Ev: "cancel_begin"})
		x.cbegun = true
		x.cancel()
		base := context.WithValue(context.Background(), ctxKey{}, x)
		x.ctx, x.cancel = context.WithTimeout(base, time.Duration(x.S.CancelUs)*time.Microsecond)
		go func(c context.Context) {
			<-c.Done()
			x.mu.Lock()
			first := !x.cdone
			x.cdone = true
			x.mu.Unlock()
			if first && atomic.LoadInt32(&x.over) == 0 {
				x.add(Ev{Ev: "cancel"})
			}
		}(x.ctx)
	}
	if x.S.Cancel == "before" {
		x.Cancel()
	}
	if x.S.Cancel == "timer" {
		d := time.Duration(x.S.CancelUs) * time.Microsecond
		go func() { time.Sleep(d); x.Cancel() }()
	}
}

// ---------------------------------------------------------------------------
// Argument expressions.

// Arg logs the evaluation of argument expression k and returns its value.
func Arg[T any](x *X, k int, v T) T {
	x.add(Ev{Ev: "arg", K: k, G: vt.GoID(), Idx: -1})
	return v
}

// Epoch and UserEmitter are values of user variables that rendered programs declare under names generated
// code uses itself (startTime, emitter); CtxChecked is then the context argument and reports whether the
// expressions that mention those names still see the user's values (C15: no capture).
var (
	Epoch       = time.Unix(1000000000, 0)
	UserEmitter = cff.NopEmitter()
)

// CtxChecked returns the directive's context; every false argument is logged as a captured user name.
func (x *X) CtxChecked(oks ...bool) context.Context {
	for i, ok := range oks {
		if !ok {
			x.add(Ev{Ev: "capture", K: i + 1, G: vt.GoID(), Idx: -1, Note: "a user variable named like a generated identifier was captured"})
		}
	}
	return x.ctx
}

// LateTok is what a later argument's side effect writes into the variables that an earlier argument reads
// plainly; a user function that receives it shows that the earlier argument was evaluated after the later one.
const LateTok = -15

// Then returns v after running the side effect f; used inside a wrapped argument expression:
// h.Arg(x, k, h.Then(func() { pv1.Tok = h.LateTok }, expr)).
func Then[T any](f func(), v T) T {
	f()
	return v
}

// Ctx is the expression used as the directive's context argument.
func (x *X) Ctx() context.Context { return x.ctx }

// Conc is the expression used as the Concurrency argument.
func (x *X) Conc() int { return x.S.Conc }

// Coe is the expression used as a non-constant ContinueOnError argument.
func (x *X) Coe() bool { return x.S.Coe }

// ---------------------------------------------------------------------------
// Tokens.

// ParamTok is the token carried by the value of type ty given in cff.Params.
func ParamTok(ty int) int { return 100 + ty }

// OutTok is the token unit u returns for its i-th output (0-based).
func OutTok(u, i int) int { return 1000*u + i + 1 }

// FBTok is the token of the i-th FallbackWith value of unit u.
func FBTok(u, i int) int { return 500000 + 1000*u + i + 1 }

// ElemTok is the token of element i of collection c.
func ElemTok(c, i int) int { return 20000 + 100*c + i }

// IdxOf recovers the index of an element of collection c from its token.
func IdxOf(c, tok int) int { return tok - ElemTok(c, 0) }

// Sentinel is preloaded into every Results target.
const Sentinel = -7

func key(u, idx int) string {
	if idx < 0 {
		return strconv.Itoa(u)
	}
	return strconv.Itoa(u) + ":" + strconv.Itoa(idx)
}

func (x *X) outcome(u, idx int, def string) string {
	if o, ok := x.S.Out[key(u, idx)]; ok {
		return o
	}
	return def
}

// errOf returns the error value unit (u, idx) returns; it is created once so
// that identity comparison works.
func (x *X) errOf(k string) error {
	if x.Bare {
		return x.errs[k] // created beforehand (MakeBare); read-only from here on
	}
	x.mu.Lock()
	defer x.mu.Unlock()
	if e, ok := x.errs[k]; ok {
		return e
	}
	e := fmt.Errorf("error of unit %s", k)
	x.errs[k] = e
	return e
}

type customPanic struct{ K string }

// uncomparablePanic is a panic value whose type has no == (a struct with a slice field).
type uncomparablePanic struct {
	K    string
	Tags []string
}

func (x *X) panicValue(k string) interface{} {
	if x.Bare {
		return "panic of unit " + k
	}
	x.mu.Lock()
	defer x.mu.Unlock()
	if v, ok := x.pvals[k]; ok {
		return v
	}
	var v interface{}
	switch x.S.PanicK[k] {
	case "err":
		v = fmt.Errorf("panic error of unit %s", k)
	case "struct":
		v = &customPanic{K: k}
	case "slice":
		// values of uncomparable type: comparing them (even as interface{}) panics
		v = []string{"panic of unit", k}
	case "ustruct":
		v = uncomparablePanic{K: k, Tags: []string{"a", "b"}}
	default:
		v = "panic of unit " + k
	}
	x.pvals[k] = v
	return v
}

// R is what a task body returns to its rendered wrapper.
type R struct {
	U   int
	Err error
}

// Out returns the token of output i.
func (r *R) Out(i int) int { return OutTok(r.U, i) }

func (x *X) enter(u, idx int, ctx context.Context, toks []int) {
	ok := true
	if ctx != nil {
		ok = From(ctx) == x
	}
	if !x.Bare {
		atomic.AddInt32(&x.InBody, 1)
	}
	x.add(Ev{Ev: "ustart", U: u, Idx: idx, G: vt.GoID(), Toks: toks, CtxOK: ok})
	if d, has := x.S.DelayUs[key(u, idx)]; has {
		if d < 0 {
			runtime.Gosched()
		} else if d > 0 {
			time.Sleep(time.Duration(d) * time.Microsecond)
		}
	}
	if x.S.Cancel == "unit" && x.S.CancelU == key(u, idx) {
		x.Cancel()
	}
	if x.S.Barrier && !x.Bare && x.barNeed > 0 && x.independent(u) {
		n := atomic.AddInt32(&x.inBar, 1)
		for {
			m := atomic.LoadInt32(&x.maxBar)
			if n <= m || atomic.CompareAndSwapInt32(&x.maxBar, m, n) {
				break
			}
		}
		if n >= x.barNeed {
			x.barOnce.Do(func() { close(x.barFull) })
		}
		select {
		case <-x.barFull:
		case <-x.barRelease: // the runner found the barrier provably unable to fill, or gave up
		case <-time.After(40 * time.Second): // never block a body for good
		}
		atomic.AddInt32(&x.inBar, -1)
	}
	if x.S.Hold != "" && x.S.Hold == key(u, idx) && !x.Bare {
		x.heldOnce.Do(func() { close(x.heldc) })
		select {
		case <-x.holdc:
		case <-time.After(40 * time.Second): // never block a body for good
		}
	}
}

// leave logs the end of the unit and panics if the scenario says so.
func (x *X) leave(u, idx int, out string) {
	k := key(u, idx)
	if !x.Bare {
		defer atomic.AddInt32(&x.InBody, -1)
	}
	x.add(Ev{Ev: "uend", U: u, Idx: idx, Out: out, G: vt.GoID()})
	if out == "panic" {
		if x.S.PanicK[k] == "rt" {
			var m map[int]int
			m[0] = 1 // a runtime error
		}
		panic(x.panicValue(k))
	}
}

// Call is the body of a task (flow task, parallel task, End hook).
func (x *X) Call(u int, ctx context.Context, toks ...int) *R {
	x.enter(u, -1, ctx, toks)
	out := x.outcome(u, -1, "ok")
	r := &R{U: u}
	if out == "err" {
		r.Err = x.errOf(key(u, -1))
	}
	x.leave(u, -1, out)
	return r
}

// Pred is the body of a predicate.
func (x *X) Pred(u int, ctx context.Context, toks ...int) bool {
	x.enter(u, -1, ctx, toks)
	out := x.outcome(u, -1, "true")
	x.leave(u, -1, out)
	return out == "true"
}

// Elem is the body of a slice or map function for one element.
func (x *X) Elem(u int, ctx context.Context, idx int, toks ...int) error {
	x.enter(u, idx, ctx, toks)
	out := x.outcome(u, idx, "ok")
	var err error
	if out == "err" {
		err = x.errOf(key(u, idx))
	}
	x.leave(u, idx, out)
	return err
}

// ---------------------------------------------------------------------------
// Return value and results.

// Ret logs what the directive returned, and the contents of the Results targets.
func (x *X) Ret(err error, results ...int) {
	if x.Bare {
		return
	}
	if x.S.Barrier && x.barNeed > 0 && x.barVerdict.Load() == "slow" && atomic.LoadInt32(&x.maxBar) < x.barNeed {
		x.add(Ev{Ev: "info", Note: "capacity probe skipped: barrier neither full nor provably stuck", Idx: -1})
	} else if x.S.Barrier && x.barNeed > 0 {
		x.add(Ev{Ev: "capacity", K: int(atomic.LoadInt32(&x.maxBar)), Idx: int(x.barNeed), G: vt.GoID()})
	}
	kind, toks := x.classify(err)
	x.add(Ev{Ev: "ret", Kind: kind, Errs: toks, Toks: results, G: vt.GoID()})
	// which leaves were told this very error?
	x.mu.Lock()
	for i := range x.evs {
		e := &x.evs[i]
		if e.Ev == "emit" && (e.Kind == "FlowError" || e.Kind == "ParallelError") {
			e.Same = err != nil && sameErr(x.ferr[e.Leaf], err)
		}
	}
	x.mu.Unlock()
}

func sameErr(a, b error) (same bool) {
	defer func() {
		if recover() != nil {
			same = false
		}
	}()
	return a == b
}

// Propagated logs a panic that escaped the directive.
func (x *X) Propagated(v interface{}) {
	x.add(Ev{Ev: "propagated", Note: fmt.Sprint(v)})
}

func (x *X) classify(err error) (string, []vt.Tok) {
	if err == nil {
		return "nil", nil
	}
	parts := multierr.Errors(err)
	if len(parts) == 1 && isCtx(parts[0]) {
		return "ctx", nil
	}
	var toks []vt.Tok
	for _, e := range parts {
		toks = append(toks, x.Tok(e))
	}
	return "errs", toks
}

func isCtx(e error) bool {
	return errors.Is(e, context.Canceled) || errors.Is(e, context.DeadlineExceeded)
}

func unitNum(k string) int {
	// "u" -> u*1000 ; "u:idx" -> u*1000 + idx + 1
	parts := strings.SplitN(k, ":", 2)
	u, _ := strconv.Atoi(parts[0])
	if len(parts) == 1 {
		return u * 1000
	}
	i, _ := strconv.Atoi(parts[1])
	return u*1000 + i + 1
}

// Tok maps an error to its identity token: ["E", unit*1000(+idx+1)] for the
// very error value a unit returned, ["P", ...] for a *cff.PanicError whose
// Value is the value that unit panicked with, CTX, or "?".
func (x *X) Tok(e error) vt.Tok {
	x.mu.Lock()
	defer x.mu.Unlock()
	for k, ev := range x.errs {
		if e == ev {
			return vt.Tok{K: "E", N: unitNum(k)}
		}
	}
	var pe *cff.PanicError
	if errors.As(e, &pe) {
		if _, direct := e.(*cff.PanicError); !direct {
			return vt.Tok{K: "?", N: 1}
		}
		for k, pv := range x.pvals {
			if samePanic(pe.Value, pv) {
				return vt.Tok{K: "P", N: unitNum(k)}
			}
		}
		if re, ok := pe.Value.(runtime.Error); ok && strings.Contains(re.Error(), "nil map") {
			for k, kind := range x.S.PanicK {
				if kind == "rt" && x.S.Out[k] == "panic" {
					return vt.Tok{K: "P", N: unitNum(k)}
				}
			}
		}
		return vt.Tok{K: "P", N: 0}
	}
	if isCtx(e) {
		return vt.Tok{K: "CTX"}
	}
	if e.Error() == "job invalid" {
		return vt.Tok{K: "INV"}
	}
	if e.Error() == "job exited unexpectedly" {
		return vt.Tok{K: "X"}
	}
	return vt.Tok{K: "?"}
}

func samePanic(a, b interface{}) (same bool) {
	defer func() {
		if recover() != nil {
			// uncomparable types: identical content (every unit's value carries the unit's key)
			same = reflect.DeepEqual(a, b)
		}
	}()
	return a == b
}

// PanicTok classifies a recovered value reported to an emitter.
func (x *X) PanicTok(v interface{}) vt.Tok {
	x.mu.Lock()
	defer x.mu.Unlock()
	for k, pv := range x.pvals {
		if samePanic(v, pv) {
			return vt.Tok{K: "P", N: unitNum(k)}
		}
	}
	if re, ok := v.(runtime.Error); ok && strings.Contains(re.Error(), "nil map") {
		for k, kind := range x.S.PanicK {
			if kind == "rt" && x.S.Out[k] == "panic" {
				return vt.Tok{K: "P", N: unitNum(k)}
			}
		}
	}
	return vt.Tok{K: "P", N: 0}
}

// ---------------------------------------------------------------------------
// Token carriers for value types that are not declared by the rendered
// package: error and any (types of the universe scope).

type tokErr struct{ tok int }

func (e *tokErr) Error() string { return "token " + strconv.Itoa(e.tok) }

// TokErr returns an error value carrying tok.
func TokErr(tok int) error { return &tokErr{tok} }

// ErrTok returns the token carried by e (0 for nil).
func ErrTok(e error) int {
	if t, ok := e.(*tokErr); ok {
		return t.tok
	}
	return 0
}

// TokBox carries a token inside an any.
type TokBox struct{ Tok int }

// AnyTok returns the token carried by v (0 for nil).
func AnyTok(v interface{}) int {
	if b, ok := v.(TokBox); ok {
		return b.Tok
	}
	return 0
}

// TokBytes carries a token in a byte slice.
func TokBytes(tok int) []byte { return []byte(strconv.Itoa(tok)) }

// BytesTok returns the token carried by b (0 for nil / empty).
func BytesTok(b []byte) int {
	n, _ := strconv.Atoi(string(b))
	return n
}
