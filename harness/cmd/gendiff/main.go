// gendiff checks the text-preservation half of C16 on one (source, generated)
// pair: the generated file must be the source file with only the directive
// calls (cff.Flow / cff.Parallel) replaced; every other declaration, statement
// and expression is preserved; imports are only added.  It also reports any
// call to a code-generation directive that survives in the output (C13).
//
//	gendiff SRC GEN [SRC GEN ...]   prints a JSON list of findings
package main

import (
	"encoding/json"
	"fmt"
	"go/ast"
	"go/parser"
	"go/token"
	"os"
	"reflect"
	"strconv"
	"strings"
)

type finding struct {
	Src  string `json:"src"`
	Prop string `json:"prop"`
	What string `json:"what"`
}

var directiveFuncs = map[string]bool{"Flow": true, "Parallel": true}

// every exported function of package cff that is a code generation directive or option
var cffGenNames = map[string]bool{"Flow": true, "Parallel": true, "Params": true, "Results": true, "Task": true, "Tasks": true,
	"Slice": true, "Map": true, "SliceEnd": true, "MapEnd": true, "Predicate": true, "FallbackWith": true, "Invoke": true,
	"Instrument": true, "InstrumentFlow": true, "InstrumentParallel": true, "Concurrency": true, "ContinueOnError": true, "WithEmitter": true}

func cffName(f *ast.File) string {
	for _, im := range f.Imports {
		p, _ := strconv.Unquote(im.Path.Value)
		if p == "go.uber.org/cff" {
			if im.Name != nil {
				return im.Name.Name
			}
			return "cff"
		}
	}
	return ""
}

func isDirective(n ast.Node, cff string) bool {
	ce, ok := n.(*ast.CallExpr)
	if !ok || cff == "" {
		return false
	}
	se, ok := ce.Fun.(*ast.SelectorExpr)
	if !ok {
		return false
	}
	id, ok := se.X.(*ast.Ident)
	return ok && id.Name == cff && directiveFuncs[se.Sel.Name]
}

type cmp struct {
	cff   string
	diffs []string
}

func (c *cmp) fail(path, msg string) {
	if len(c.diffs) < 5 {
		c.diffs = append(c.diffs, path+": "+msg)
	}
}

var posType = reflect.TypeOf(token.NoPos)

// equal compares two AST values structurally, ignoring positions, comments,
// resolved objects and scopes; at a directive call in the source anything is
// accepted in the output as long as it is a call of a function literal.
func (c *cmp) equal(a, b reflect.Value, path string) {
	if !a.IsValid() || !b.IsValid() {
		if a.IsValid() != b.IsValid() {
			c.fail(path, "one side missing")
		}
		return
	}
	if a.Type() != b.Type() {
		c.fail(path, fmt.Sprintf("node kind %v became %v", a.Type(), b.Type()))
		return
	}
	switch a.Kind() {
	case reflect.Ptr, reflect.Interface:
		if a.IsNil() || b.IsNil() {
			if a.IsNil() != b.IsNil() {
				c.fail(path, "nil vs non-nil")
			}
			return
		}
		if a.Kind() == reflect.Ptr {
			if n, ok := a.Interface().(ast.Node); ok && isDirective(n, c.cff) {
				bc, ok := b.Interface().(*ast.CallExpr)
				if !ok {
					c.fail(path, "directive call replaced by something that is not a call")
					return
				}
				if _, ok := bc.Fun.(*ast.FuncLit); !ok {
					c.fail(path, "directive call not replaced by a function-literal call")
				}
				return
			}
			switch a.Interface().(type) {
			case *ast.Object, *ast.Scope, *ast.CommentGroup:
				return
			}
		}
		c.equal(a.Elem(), b.Elem(), path)
	case reflect.Struct:
		for i := 0; i < a.NumField(); i++ {
			f := a.Type().Field(i)
			if f.Type == posType || f.Name == "Obj" || f.Name == "Scope" || f.Name == "Doc" || f.Name == "Comment" || f.Name == "Comments" || f.Name == "Unresolved" || f.Name == "Imports" || f.Name == "FileStart" || f.Name == "FileEnd" || f.Name == "GoVersion" {
				continue
			}
			c.equal(a.Field(i), b.Field(i), path+"."+f.Name)
		}
	case reflect.Slice:
		if a.Len() != b.Len() {
			c.fail(path, fmt.Sprintf("%d elements became %d", a.Len(), b.Len()))
			return
		}
		for i := 0; i < a.Len(); i++ {
			c.equal(a.Index(i), b.Index(i), fmt.Sprintf("%s[%d]", path, i))
		}
	case reflect.String, reflect.Int, reflect.Bool, reflect.Int64, reflect.Uint:
		if !reflect.DeepEqual(a.Interface(), b.Interface()) {
			c.fail(path, fmt.Sprintf("%v became %v", a.Interface(), b.Interface()))
		}
	case reflect.Map:
		// ast.Scope objects etc: skipped above
	}
}

// importSet returns the import specs of f as "path name" pairs (a path may be imported more than once
// under different names).
func importSet(f *ast.File) map[string]bool {
	m := map[string]bool{}
	for _, im := range f.Imports {
		n := ""
		if im.Name != nil {
			n = im.Name.Name
		}
		m[im.Path.Value+" "+n] = true
	}
	return m
}

func nonImportDecls(f *ast.File) []ast.Decl {
	var out []ast.Decl
	for _, d := range f.Decls {
		if g, ok := d.(*ast.GenDecl); ok && g.Tok == token.IMPORT {
			continue
		}
		out = append(out, d)
	}
	return out
}

func check(src, gen string) []finding {
	var out []finding
	fset := token.NewFileSet()
	sf, err := parser.ParseFile(fset, src, nil, parser.ParseComments)
	if err != nil {
		return []finding{{src, "HARNESS", "source does not parse: " + err.Error()}}
	}
	gf, err := parser.ParseFile(fset, gen, nil, parser.ParseComments)
	if err != nil {
		return []finding{{src, "C13", "generated file does not parse: " + err.Error()}}
	}
	// imports only added
	si, gi := importSet(sf), importSet(gf)
	for p := range si {
		if !gi[p] {
			out = append(out, finding{src, "C16", "import " + p + " removed or renamed in the generated file"})
		}
	}
	if sf.Name.Name != gf.Name.Name {
		out = append(out, finding{src, "C16", "package clause changed"})
	}
	c := &cmp{cff: cffName(sf)}
	sd, gd := nonImportDecls(sf), nonImportDecls(gf)
	c.equal(reflect.ValueOf(sd), reflect.ValueOf(gd), "decls")
	for _, d := range c.diffs {
		out = append(out, finding{src, "C16", "code outside directive calls differs: " + d})
	}
	// no directive left (C13)
	gc := cffName(gf)
	ast.Inspect(gf, func(n ast.Node) bool {
		if ce, ok := n.(*ast.CallExpr); ok {
			if se, ok := ce.Fun.(*ast.SelectorExpr); ok {
				if id, ok := se.X.(*ast.Ident); ok && gc != "" && id.Name == gc && cffGenNames[se.Sel.Name] {
					out = append(out, finding{src, "C13", fmt.Sprintf("call to directive %s.%s remains in the generated file at %v", gc, se.Sel.Name, fset.Position(ce.Pos()))})
				}
			}
		}
		return true
	})
	// comments outside directives should survive too (weak check: every source comment text that
	// does not lie inside a directive call appears in the output)
	var spans [][2]token.Pos
	ast.Inspect(sf, func(n ast.Node) bool {
		if n != nil && isDirective(n, c.cff) {
			spans = append(spans, [2]token.Pos{n.Pos(), n.End()})
			return false
		}
		return true
	})
	gtext := map[string]bool{}
	for _, cg := range gf.Comments {
		for _, cm := range cg.List {
			gtext[cm.Text] = true
		}
	}
	for _, cg := range sf.Comments {
		for _, cm := range cg.List {
			inside := false
			for _, s := range spans {
				if cm.Pos() >= s[0] && cm.Pos() <= s[1] {
					inside = true
				}
			}
			if inside || strings.HasPrefix(cm.Text, "//go:build") || strings.HasPrefix(cm.Text, "// +build") {
				continue
			}
			if !gtext[cm.Text] {
				out = append(out, finding{src, "C16", "comment lost: " + cm.Text})
			}
		}
	}
	return out
}

func main() {
	all := []finding{}
	args := os.Args[1:]
	for i := 0; i+1 < len(args); i += 2 {
		all = append(all, check(args[i], args[i+1])...)
	}
	b, _ := json.Marshal(all)
	fmt.Println(string(b))
}
