// tagcheck binds spec/BuildTag.tla to the real cff.
//
//	tagcheck gen -in exprs.tsv -out DIR
//	    renders, for every expression TLC enumerated, source files whose build
//	    constraints spell that expression in //go:build form, in // +build form
//	    (when expressible) and in both forms; files are grouped into packages by
//	    the tag assignment under which cff can load them.
//	tagcheck verify -in exprs.tsv -dir DIR
//	    after cff ran: for every source file, the constraints of the generated
//	    file must select it exactly when the source would be selected with the
//	    cff tag flipped (all 8 assignments), and the generated //go:build
//	    expression must be the one the spec computes (Flip).
package main

import (
	"bufio"
	"encoding/json"
	"flag"
	"fmt"
	"go/build/constraint"
	"os"
	"path/filepath"
	"sort"
	"strings"
)

type item struct {
	ID   int
	Src  string
	Flip string
}

func readItems(path string) []item {
	f, err := os.Open(path)
	must(err)
	defer f.Close()
	var out []item
	sc := bufio.NewScanner(f)
	sc.Buffer(make([]byte, 1<<20), 1<<26)
	for sc.Scan() {
		p := strings.Split(sc.Text(), "\t")
		if len(p) != 2 {
			continue
		}
		out = append(out, item{ID: len(out) + 1, Src: p[0], Flip: p[1]})
	}
	return out
}

var tags = []string{"cff", "a", "b"}

func eval(x constraint.Expr, asg map[string]bool) bool {
	return x.Eval(func(t string) bool { return asg[t] })
}

func assignments() []map[string]bool {
	var out []map[string]bool
	for m := 0; m < 8; m++ {
		out = append(out, map[string]bool{"cff": m&1 != 0, "a": m&2 != 0, "b": m&4 != 0})
	}
	return out
}

// fileConstraints parses the constraint lines before the package clause; the
// file is selected iff all of them hold. //go:build wins over // +build when
// both are present (as in the go tool).
func fileConstraints(path string) (exprs []constraint.Expr, gobuild constraint.Expr, err error) {
	b, err := os.ReadFile(path)
	if err != nil {
		return nil, nil, err
	}
	var plus []constraint.Expr
	for _, line := range strings.Split(string(b), "\n") {
		t := strings.TrimSpace(line)
		if strings.HasPrefix(t, "package ") {
			break
		}
		if constraint.IsGoBuild(t) {
			x, err := constraint.Parse(t)
			if err != nil {
				return nil, nil, fmt.Errorf("%s: %v", path, err)
			}
			gobuild = x
		} else if constraint.IsPlusBuild(t) {
			x, err := constraint.Parse(t)
			if err != nil {
				return nil, nil, fmt.Errorf("%s: %v", path, err)
			}
			plus = append(plus, x)
		}
	}
	if gobuild != nil {
		return []constraint.Expr{gobuild}, gobuild, nil
	}
	return plus, nil, nil
}

func selected(exprs []constraint.Expr, asg map[string]bool) bool {
	for _, x := range exprs {
		if !eval(x, asg) {
			return false
		}
	}
	return true
}

func group(asg map[string]bool) string {
	s := "g"
	for _, t := range []string{"a", "b"} {
		if asg[t] {
			s += "1"
		} else {
			s += "0"
		}
	}
	return s
}

func body(pkg, fn string, id int) string {
	return fmt.Sprintf("package %s\n\nimport (\n\t\"context\"\n\n\t\"go.uber.org/cff\"\n)\n\n// %s is surrounded by code that must survive generation unchanged.\nfunc %s(ctx context.Context) (r int, err error) {\n\tconst k = %d // a comment\n\terr = cff.Flow(ctx, cff.Results(&r), cff.Task(func() int { return k }))\n\treturn\n}\n", pkg, fn, fn, id)
}

func gen(items []item, out string) {
	type rec struct {
		ID    int      `json:"id"`
		Pkg   string   `json:"pkg"`
		Files []string `json:"files"`
	}
	var index []rec
	skipped := 0
	for _, it := range items {
		x, err := constraint.Parse("//go:build " + it.Src)
		if err != nil {
			fmt.Fprintf(os.Stderr, "spec printed an expression Go cannot parse: %q: %v\n", it.Src, err)
			os.Exit(2)
		}
		if !strings.Contains(it.Src, "cff") {
			skipped++ // not a cff source file: cff ignores files whose constraints do not mention cff
			continue
		}
		var pick map[string]bool
		for _, asg := range assignments() {
			if asg["cff"] && eval(x, asg) {
				pick = asg
				break
			}
		}
		if pick == nil {
			skipped++ // cff can never load this file (unsatisfiable with the cff tag set)
			continue
		}
		pkg := group(pick)
		dir := filepath.Join(out, pkg)
		must(os.MkdirAll(dir, 0o755))
		r := rec{ID: it.ID, Pkg: pkg}
		write := func(suffix, header string) {
			name := fmt.Sprintf("e%d_%s.go", it.ID, suffix)
			fn := fmt.Sprintf("E%d%s", it.ID, suffix)
			must(os.WriteFile(filepath.Join(dir, name), []byte(header+body(pkg, fn, it.ID)), 0o644))
			r.Files = append(r.Files, name)
		}
		// Layout of the header.  gofmt puts a blank line after the constraint, but a //go:build line is
		// honoured by the go tool without one, directly above the package clause or above the package's
		// doc comment (a // +build line is not: it needs the blank line).
		switch it.ID % 4 {
		case 2:
			write("gb", "//go:build "+x.String()+"\n")
		case 3:
			write("gb", "//go:build "+x.String()+"\n// Package "+pkg+" holds rendered build-constraint cases.\n")
		default:
			write("gb", "//go:build "+x.String()+"\n\n")
		}
		if lines, err := constraint.PlusBuildLines(x); err == nil {
			write("pb", strings.Join(lines, "\n")+"\n\n")
			write("both", "//go:build "+x.String()+"\n"+strings.Join(lines, "\n")+"\n\n")
		}
		index = append(index, r)
	}
	b, _ := json.Marshal(map[string]interface{}{"index": index, "skipped": skipped})
	must(os.WriteFile(filepath.Join(out, "index.json"), b, 0o644))
	fmt.Printf("tagcheck gen: %d expressions rendered, %d not loadable with the cff tag\n", len(index), skipped)
}

type viol struct {
	File string `json:"file"`
	What string `json:"what"`
	Src  string `json:"src"`
	Gen  string `json:"gen"`
}

func verify(items []item, dir string) {
	byID := map[int]item{}
	for _, it := range items {
		byID[it.ID] = it
	}
	viols := []viol{}
	checked := 0
	pkgs, _ := filepath.Glob(filepath.Join(dir, "g*"))
	sort.Strings(pkgs)
	for _, pd := range pkgs {
		files, _ := filepath.Glob(filepath.Join(pd, "e*.go"))
		sort.Strings(files)
		for _, f := range files {
			if strings.HasSuffix(f, "_gen.go") {
				continue
			}
			var id int
			var suffix string
			base := strings.TrimSuffix(filepath.Base(f), ".go")
			fmt.Sscanf(strings.Replace(base, "_", " ", 1), "e%d %s", &id, &suffix)
			g := strings.TrimSuffix(f, ".go") + "_gen.go"
			if _, err := os.Stat(g); err != nil {
				viols = append(viols, viol{File: f, What: "no generated file"})
				continue
			}
			sx, _, err := fileConstraints(f)
			must(err)
			gx, ggb, err := fileConstraints(g)
			if err != nil {
				viols = append(viols, viol{File: f, What: "generated constraints do not parse: " + err.Error()})
				continue
			}
			checked++
			for _, asg := range assignments() {
				flipped := map[string]bool{"cff": !asg["cff"], "a": asg["a"], "b": asg["b"]}
				if selected(gx, asg) != selected(sx, flipped) {
					viols = append(viols, viol{File: f, What: fmt.Sprintf("under %v the generated file is selected=%v but the source with cff flipped is selected=%v", asg, selected(gx, asg), selected(sx, flipped)),
						Src: byID[id].Src, Gen: exprString(gx)})
					break
				}
			}
			// the //go:build expression must be the one the spec computes
			if ggb != nil && suffix != "pb" {
				want, err := constraint.Parse("//go:build " + byID[id].Flip)
				if err == nil && want.String() != ggb.String() {
					viols = append(viols, viol{File: f, What: "generated //go:build differs from Flip(e) of spec/BuildTag.tla", Src: byID[id].Src, Gen: ggb.String() + " (want " + want.String() + ")"})
				}
			}
		}
	}
	b, _ := json.Marshal(map[string]interface{}{"checked": checked, "violations": viols})
	fmt.Println(string(b))
}

func exprString(xs []constraint.Expr) string {
	var s []string
	for _, x := range xs {
		s = append(s, x.String())
	}
	return strings.Join(s, " ; ")
}

func must(err error) {
	if err != nil {
		fmt.Fprintln(os.Stderr, "tagcheck:", err)
		os.Exit(2)
	}
}

func main() {
	if len(os.Args) < 2 {
		fmt.Fprintln(os.Stderr, "usage: tagcheck gen|verify ...")
		os.Exit(2)
	}
	fs := flag.NewFlagSet(os.Args[1], flag.ExitOnError)
	in := fs.String("in", "", "expressions (TSV: source, flipped)")
	out := fs.String("out", "", "output directory (gen)")
	dir := fs.String("dir", "", "directory (verify)")
	fs.Parse(os.Args[2:])
	items := readItems(*in)
	switch os.Args[1] {
	case "gen":
		gen(items, *out)
	case "verify":
		verify(items, *dir)
	}
}
