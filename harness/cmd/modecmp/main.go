// modecmp decides the first half of C20 on pairs of generated files: the
// source-map output must be exactly the base-mode output up to comments and
// line directives.  Both files are scanned with go/scanner; comment tokens
// (which include /*line ...*/ and //line directives) are dropped and the
// remaining token sequences (kind and literal; automatically inserted
// semicolons count as semicolons) must be identical.
//
//	modecmp BASE SRCMAP [BASE SRCMAP ...]   prints a JSON list of findings
package main

import (
	"encoding/json"
	"fmt"
	"go/scanner"
	"go/token"
	"os"
)

type tok struct {
	T   token.Token
	Lit string
	Pos string
}

func scan(path string) ([]tok, error) {
	b, err := os.ReadFile(path)
	if err != nil {
		return nil, err
	}
	fset := token.NewFileSet()
	f := fset.AddFile(path, fset.Base(), len(b))
	var s scanner.Scanner
	var errs []string
	// no ScanComments: comments are skipped, but a //line directive would still move positions;
	// positions are reported from the raw file offsets (PositionFor(..., false)).
	s.Init(f, b, func(pos token.Position, msg string) { errs = append(errs, pos.String()+": "+msg) }, 0)
	var out []tok
	for {
		pos, t, lit := s.Scan()
		if t == token.EOF {
			break
		}
		if t == token.SEMICOLON {
			lit = ";"
		}
		out = append(out, tok{t, lit, fset.PositionFor(pos, false).String()})
	}
	if len(errs) > 0 {
		return out, fmt.Errorf("%s", errs[0])
	}
	return out, nil
}

type finding struct {
	Base string `json:"base"`
	What string `json:"what"`
}

func main() {
	args := os.Args[1:]
	var fs []finding
	n := 0
	for i := 0; i+1 < len(args); i += 2 {
		a, errA := scan(args[i])
		b, errB := scan(args[i+1])
		n++
		if errA != nil || errB != nil {
			fs = append(fs, finding{args[i], fmt.Sprintf("cannot scan: %v %v", errA, errB)})
			continue
		}
		k := 0
		for k < len(a) && k < len(b) && a[k].T == b[k].T && a[k].Lit == b[k].Lit {
			k++
		}
		if k < len(a) || k < len(b) {
			desc := func(ts []tok) string {
				if k < len(ts) {
					return fmt.Sprintf("%s %q at %s", ts[k].T, ts[k].Lit, ts[k].Pos)
				}
				return "end of file"
			}
			fs = append(fs, finding{args[i], fmt.Sprintf("token %d differs: base has %s, source-map has %s", k, desc(a), desc(b))})
		}
	}
	if fs == nil {
		fs = []finding{}
	}
	json.NewEncoder(os.Stdout).Encode(map[string]interface{}{"pairs": n, "findings": fs})
}
