//go:build verif

package main

import (
	"bufio"
	"context"
	"encoding/json"
	"os"
	"strings"
	"sync"
	"time"

	"go.uber.org/cff/scheduler"

	"verif/harness/pkg/vt"
)

// Step is one step of a behaviour of Sched.tla as printed by SchedSim.tla.
//
// Steps the replayer performs itself: enq (Enqueue job), end (let the body of
// job finish with its outcome), cancel, close (call Wait).  Steps it waits
// for, as reported by the hooks: l_recv_enq, l_recv_done, w_recv, checked,
// sent, l_recv_closed, ret.
type Step struct {
	Op  string `json:"op"`
	Job int    `json:"job"`
	Out string `json:"out"`
}

type simScript struct {
	NJ    int      `json:"nj"`
	N     int      `json:"n"`
	Coe   bool     `json:"coe"`
	Deps  [][]int  `json:"deps"`
	Out   []string `json:"out"`
	JCtx  []int    `json:"jctx"`
	Steps []Step   `json:"steps"`
}

// readScripts reads the SCRIPT lines TLC printed (file with one JSON object
// per line, already unquoted by tools/check) and turns each into a RunSpec.
func readScripts(path string, limit int, seed int64) []RunSpec {
	f, err := os.Open(path)
	must(err)
	defer f.Close()
	sc := bufio.NewScanner(f)
	sc.Buffer(make([]byte, 1<<20), 1<<26)
	var out []RunSpec
	for sc.Scan() {
		l := strings.TrimSpace(sc.Text())
		if l == "" {
			continue
		}
		var s simScript
		must(json.Unmarshal([]byte(l), &s))
		rs := RunSpec{Run: len(out) + 1, Seed: seed + int64(len(out)), J: s.NJ, N: s.N, Coe: s.Coe,
			Deps: s.Deps, Out: s.Out, CancelMode: "none", Cancel2Mode: "none", JCtx: s.JCtx, Script: s.Steps}
		if rs.Deps == nil {
			rs.Deps = [][]int{}
		}
		for j := 1; j <= s.NJ; j++ {
			rs.Cls = append(rs.Cls, j)
			rs.BodyUs = append(rs.BodyUs, 0)
			rs.EnqUs = append(rs.EnqUs, 0)
			if rs.Deps[j-1] == nil {
				rs.Deps[j-1] = []int{}
			}
		}
		out = append(out, rs)
		if limit > 0 && len(out) >= limit {
			break
		}
	}
	return out
}

// scripted walks the real scheduler through the behaviour in x.rs.Script.
func (x *exec) scripted(ctx context.Context, cfg scheduler.Config) {
	rs := &x.rs
	col := x.col
	const stepWait = 10 * time.Millisecond
	release := make([]chan struct{}, rs.J+1)
	for j := range release {
		release[j] = make(chan struct{})
	}
	var relOnce = make([]sync.Once, rs.J+1)
	x.gate = func(j int) {
		select {
		case <-release[j]:
		case <-time.After(2 * time.Second): // safety net: never block a body for good
		}
	}
	rel := func(j int) { relOnce[j].Do(func() { close(release[j]) }) }

	s := cfg.New()
	handles := make([]*scheduler.ScheduledJob, rs.J+1)
	next := 1
	waitDone := make(chan struct{})
	called := false
	callWait := func() {
		called = true
		x.log.Add(vt.APIEvent{Ev: "waitcall", Run: rs.Run})
		go func() {
			defer close(waitDone)
			err := s.Wait(ctx)
			kind, toks := x.classify(err)
			x.log.Add(vt.APIEvent{Ev: "waitret", Run: rs.Run, Kind: kind, Toks: toks})
		}()
	}
	enq := func(j int) {
		deps := depsOf(rs, handles, j)
		x.log.Add(vt.APIEvent{Ev: "submit", Run: rs.Run, Job: j})
		handles[j] = s.Enqueue(x.ctxOf(ctx, j), scheduler.Job{Run: x.body(j), Dependencies: deps})
		next = j + 1
	}
	diverged := 0
	await := func(ev string, j int) {
		if col == nil {
			time.Sleep(100 * time.Microsecond)
			return
		}
		if !col.Await(ev, j, 1, stepWait) {
			diverged++
		}
	}
	for _, st := range rs.Script {
		if diverged > 3 {
			break // the real run went another way; finish it freely
		}
		switch st.Op {
		case "enq":
			if !called && st.Job == next {
				enq(st.Job)
			}
		case "end":
			rel(st.Job)
		case "cancel":
			x.doCancel()
		case "cancel2":
			x.doCancel2()
		case "close":
			if !called {
				for next <= rs.J { // a behaviour always enqueues everything before Wait
					enq(next)
				}
				callWait()
			}
		case "ret":
			select {
			case <-waitDone:
			case <-time.After(stepWait):
				diverged++
			}
		case "l_recv_enq", "l_recv_done", "w_recv", "l_recv_closed":
			await(st.Op, st.Job)
		case "checked":
			if col != nil && !(col.Await("w_start", st.Job, 1, stepWait/2) || col.Await("w_skip_ctx", st.Job, 1, 0) || col.Await("w_skip_inv", st.Job, 1, 0)) {
				diverged++
			}
		case "sent":
			if col != nil && !(col.Await("w_sent", st.Job, 1, stepWait/2) || col.Await("w_dying", st.Job, 1, 0)) {
				diverged++
			}
		}
	}
	// Finish the run freely.
	for next <= rs.J && !called {
		enq(next)
	}
	if !called {
		callWait()
	}
	for j := 1; j <= rs.J; j++ {
		rel(j)
	}
	<-waitDone
	x.log.Add(vt.APIEvent{Ev: "info", Run: rs.Run, P: diverged, Note: "scripted"})
}
