//go:build verif

// scheddrv drives the real cff scheduler (built from /repo with the verif
// tag) through seeded random runs, or through behaviours prescribed by TLC,
// and records
//
//   - a stamped API-level trace (hook-free: job bodies and the caller stamp
//     their own events) for validation against JobSysTrace.tla, and
//   - per-goroutine hook traces for validation against SchedTrace.tla.
//
// It never prints a verdict about a property itself, except for the two
// things only the process can see: a confirmed hang (C05) and goroutines
// that survive quiescence (C06); both are written into the API trace as
// events and judged by the trace spec like everything else.
package main

import (
	"context"
	"encoding/json"
	"errors"
	"flag"
	"fmt"
	"math/rand"
	"os"
	"path/filepath"
	"runtime"
	"strings"
	"sync"
	"sync/atomic"
	"time"

	"go.uber.org/cff/scheduler"
	"go.uber.org/multierr"

	"verif/harness/pkg/vt"
)

// RunSpec describes one run completely; it is what a replay file holds.
type RunSpec struct {
	Run         int      `json:"run"`
	Seed        int64    `json:"seed"`
	J           int      `json:"j"`
	N           int      `json:"n"` // 0 = default
	Coe         bool     `json:"coe"`
	Deps        [][]int  `json:"deps"`
	Out         []string `json:"out"`    // ok | err | goexit | cancel
	Cls         []int    `json:"cls"`    // error class per job (jobs of one class return the same error value)
	BodyUs      []int    `json:"bodyus"` // -1 = yield, 0 = nothing, >0 sleep microseconds
	EnqUs       []int    `json:"enqus"`  // delay before enqueueing job j
	Emit        bool     `json:"emit"`
	EmitSleepUs int      `json:"emitsleepus"`
	CancelMode  string   `json:"cancelmode"` // none | before | atenq | timer | deadline
	CancelArg   int      `json:"cancelarg"`  // job index for atenq, microseconds for timer
	WaitUs      int      `json:"waitus"`     // delay before calling Wait
	// JCtx, if non-empty, gives per job the context it is enqueued with: 1 = the context also
	// given to Wait, 2 = a second context that is cancelled independently (Cancel2Mode).
	JCtx        []int  `json:"jctx"`
	Cancel2Mode string `json:"cancel2mode"` // none | before | atenq | timer
	Cancel2Arg  int    `json:"cancel2arg"`
	// Barrier > 0: the last Barrier jobs form a capacity probe: they are enqueued once all
	// earlier jobs have finished and each blocks until all of them are in flight at once
	// (or a timeout): with N workers, N runnable jobs must run concurrently (C03).
	Barrier int `json:"barrier"`
	// Hold > 0: the body of job Hold blocks until the driver releases it, which it does only after Wait
	// has returned (or after a long timeout); the context is cancelled once that body has started, before
	// (PromptOrder = "cancel-first") or after Wait is called.  Wait must return while the body is still
	// held: cancellation is prompt, it does not wait for running jobs (C09).
	Hold        int    `json:"hold"`
	PromptOrder string `json:"promptorder"`
	// Enqueuers > 1: that many goroutines call Enqueue concurrently (job j is enqueued by goroutine
	// j mod Enqueuers and depends only on earlier jobs of the same goroutine); Wait is called when all are done.
	Enqueuers  int     `json:"enqueuers"`
	PerturbP   float64 `json:"perturbp"`
	PerturbMax int     `json:"perturbmax"`
	// Focus*: one long delay (FocusUs microseconds) inside the scheduler, right after the FocusNth occurrence
	// of hook event FocusEv in this run (vt.Collector.Focus*).
	FocusEv  string `json:"focusev,omitempty"`
	FocusNth int    `json:"focusnth,omitempty"`
	FocusUs  int    `json:"focusus,omitempty"`
	// Cut > 0: phased run.  Jobs 1..Cut are enqueued first; the bodies of the jobs in Held block; once everything
	// else of phase one has come to rest (finished, failed, skipped) jobs Cut+1..J are enqueued - Enqueue meets
	// dependencies that are long finished, failed and recorded, or still running - and the held bodies are
	// released HeldRelUs microseconds later.
	// ShareDeps: dependencies are windows of one shared array (see depsOf).
	ShareDeps bool  `json:"sharedeps,omitempty"`
	Cut       int   `json:"cut,omitempty"`
	Held      []int `json:"held,omitempty"`
	HeldRelUs int   `json:"heldrelus,omitempty"`
	// Script, if non-empty, replaces the random pacing: the run is steered
	// step by step (see replay.go).
	Script []Step `json:"script,omitempty"`
}

// every hook event of the scheduler (see /repo/scheduler/scheduler.go, build tag verif)
var hookEvents = []string{"w_begin", "w_dying", "w_dsent", "w_recv", "w_skip_ctx", "w_skip_inv", "w_start", "w_end", "w_sent", "w_exit",
	"c_enq_begin", "c_enq", "l_exit", "l_drain_recv", "l_drain_end", "l_select", "l_dispatch", "l_recv_closed", "l_recv_enq",
	"l_recv_done", "l_tick", "c_close", "c_ret_ctx", "c_ret_fin"}

// genFocus: a random run with one long delay behind one step of the scheduler. The step is drawn uniformly
// over the KINDS of steps, so rare ones (the loop's exit and drain, a dying worker) are held as often as
// common ones.
func genFocus(rng *rand.Rand, k int, maxJ, maxN int) RunSpec {
	rs := genRun(rng, k, maxJ, maxN)
	rs.FocusEv = hookEvents[rng.Intn(len(hookEvents))]
	rs.FocusNth = 1
	if rng.Intn(2) == 0 {
		rs.FocusNth = 1 + rng.Intn(5)
	}
	rs.FocusUs = 300 + rng.Intn(2500)
	return rs
}

// genPhased: see RunSpec.Cut.
func genPhased(rng *rand.Rand, k int) RunSpec {
	rs := RunSpec{Run: k, Seed: rng.Int63(), CancelMode: "none", Cancel2Mode: "none"}
	rs.J = 4 + rng.Intn(5)
	rs.N = 1 + rng.Intn(4)
	rs.Coe = rng.Intn(10) < 7
	rs.Cut = 2 + rng.Intn(rs.J-3)
	pfail := []float64{0.2, 0.35, 0.5}[rng.Intn(3)]
	for j := 1; j <= rs.J; j++ {
		deps := []int{}
		pdep := 0.3
		if j > rs.Cut {
			pdep = 0.45
		}
		for d := 1; d < j; d++ {
			if rng.Float64() < pdep {
				deps = append(deps, d)
			}
		}
		if len(deps) > 0 && rng.Intn(10) == 0 {
			deps = append(deps, deps[rng.Intn(len(deps))])
		}
		rs.Deps = append(rs.Deps, deps)
		o := "ok"
		switch x := rng.Float64(); {
		case x < pfail:
			o = "err"
		case x < pfail+0.05:
			o = "goexit"
		}
		rs.Out = append(rs.Out, o)
		rs.Cls = append(rs.Cls, j)
		b := rng.Intn(40)
		if j > rs.Cut && rng.Intn(3) == 0 {
			b = 400 + rng.Intn(1600) // a job of phase two that outlasts the others
		}
		rs.BodyUs = append(rs.BodyUs, b)
		e := 0
		if j > rs.Cut && rng.Intn(3) == 0 {
			e = rng.Intn(200)
		}
		rs.EnqUs = append(rs.EnqUs, e)
	}
	// up to N-1 held bodies among the jobs of phase one (a free worker must remain for the others)
	for j := 1; j <= rs.Cut && len(rs.Held) < effN(rs.N)-1 && len(rs.Held) < 2; j++ {
		if rng.Intn(2) == 0 {
			rs.Held = append(rs.Held, j)
		}
	}
	if rng.Intn(2) == 0 {
		rs.ShareDeps = true
		for j := 2; j <= rs.J; j++ {
			if len(rs.Deps[j-1]) == 0 {
				continue
			}
			a := 1 + rng.Intn(j-1)
			b := a + rng.Intn(j-a)
			w := []int{}
			for d := a; d <= b; d++ {
				w = append(w, d)
			}
			rs.Deps[j-1] = w
		}
	}
	rs.HeldRelUs = rng.Intn(1200)
	if rng.Intn(2) == 0 {
		rs.WaitUs = rng.Intn(600)
	}
	rs.Emit = rng.Intn(4) == 0
	rs.PerturbP = []float64{0, 0.2}[rng.Intn(2)]
	rs.PerturbMax = 30
	return rs
}

// depsOf returns the Dependencies of job j. With ShareDeps a contiguous run of dependencies d..e is passed as
// the window handles[d:e+1] of the caller's own array of job handles - the way a caller passes "the previous
// layer" to several consumers - so that the slices of different jobs share one backing array at different
// offsets; the scheduler must treat them as read-only.
func depsOf(rs *RunSpec, handles []*scheduler.ScheduledJob, j int) []*scheduler.ScheduledJob {
	ds := rs.Deps[j-1]
	if rs.ShareDeps && len(ds) > 0 {
		contiguous := true
		for i := 1; i < len(ds); i++ {
			if ds[i] != ds[i-1]+1 {
				contiguous = false
			}
		}
		if contiguous {
			return handles[ds[0] : ds[len(ds)-1]+1 : ds[len(ds)-1]+1]
		}
	}
	var deps []*scheduler.ScheduledJob
	for _, d := range ds {
		deps = append(deps, handles[d])
	}
	return deps
}

func (rs *RunSpec) held(j int) bool {
	for _, h := range rs.Held {
		if h == j {
			return true
		}
	}
	return false
}

func genRun(rng *rand.Rand, k int, maxJ, maxN int) RunSpec {
	rs := RunSpec{Run: k, Seed: rng.Int63()}
	switch x := rng.Intn(20); {
	case x == 0:
		rs.J = 0
	case x < 4:
		rs.J = 1 + rng.Intn(3)
	default:
		rs.J = 1 + rng.Intn(maxJ)
	}
	rs.N = 1 + rng.Intn(maxN)
	if rng.Intn(25) == 0 {
		rs.N = 0
	}
	rs.Coe = rng.Intn(2) == 0
	pdep := []float64{0, 0.15, 0.3, 0.6, 0.9}[rng.Intn(5)]
	pfail := []float64{0, 0, 0.15, 0.4}[rng.Intn(4)]
	pexit := []float64{0, 0, 0.1}[rng.Intn(3)]
	pcan := []float64{0, 0, 0, 0.1}[rng.Intn(4)]
	bodyMode := rng.Intn(4)
	enqMode := rng.Intn(3)
	for j := 1; j <= rs.J; j++ {
		deps := []int{}
		for d := 1; d < j; d++ {
			if rng.Float64() < pdep {
				deps = append(deps, d)
			}
		}
		if len(deps) > 0 && rng.Intn(8) == 0 {
			deps = append(deps, deps[rng.Intn(len(deps))]) // duplicate dependency
		}
		if rng.Intn(6) == 0 {
			rng.Shuffle(len(deps), func(a, b int) { deps[a], deps[b] = deps[b], deps[a] })
		}
		rs.Deps = append(rs.Deps, deps)
		o := "ok"
		switch x := rng.Float64(); {
		case x < pfail:
			o = "err"
		case x < pfail+pexit:
			o = "goexit"
		case x < pfail+pexit+pcan:
			o = "cancel"
		}
		rs.Out = append(rs.Out, o)
		c := j
		if j > 1 && rng.Intn(5) == 0 {
			c = rs.Cls[rng.Intn(j-1)]
		}
		rs.Cls = append(rs.Cls, c)
		b := 0
		switch bodyMode {
		case 1:
			b = -1
		case 2:
			b = rng.Intn(100)
		case 3:
			if rng.Intn(4) == 0 {
				b = 500 + rng.Intn(1500)
			} else {
				b = rng.Intn(50)
			}
		}
		rs.BodyUs = append(rs.BodyUs, b)
		e := 0
		switch enqMode {
		case 1:
			e = rng.Intn(150)
		case 2:
			if rng.Intn(3) == 0 {
				e = 200 + rng.Intn(800)
			}
		}
		rs.EnqUs = append(rs.EnqUs, e)
	}
	if rs.Deps == nil {
		rs.Deps, rs.Out, rs.Cls, rs.BodyUs, rs.EnqUs = [][]int{}, []string{}, []int{}, []int{}, []int{}
	}
	if rng.Intn(3) == 0 {
		// dependencies as windows of the caller's array of handles (overlapping between jobs)
		rs.ShareDeps = true
		for j := 2; j <= rs.J; j++ {
			if len(rs.Deps[j-1]) == 0 || rng.Intn(4) == 0 {
				continue
			}
			a := 1 + rng.Intn(j-1)
			b := a + rng.Intn(j-a)
			w := []int{}
			for d := a; d <= b; d++ {
				w = append(w, d)
			}
			rs.Deps[j-1] = w
		}
	}
	rs.Emit = rng.Intn(3) == 0
	rs.EmitSleepUs = []int{0, 20, 40}[rng.Intn(3)]
	switch x := rng.Intn(20); {
	case x < 12:
		rs.CancelMode = "none"
	case x < 13:
		rs.CancelMode = "before"
	case x < 16 && rs.J > 0:
		rs.CancelMode, rs.CancelArg = "atenq", 1+rng.Intn(rs.J)
	case x < 18:
		rs.CancelMode, rs.CancelArg = "timer", rng.Intn(600)
	default:
		rs.CancelMode, rs.CancelArg = "deadline", 1+rng.Intn(600)
	}
	if rng.Intn(3) == 0 {
		rs.WaitUs = rng.Intn(400)
	}
	rs.PerturbP = []float64{0, 0.1, 0.3, 0.6}[rng.Intn(4)]
	rs.PerturbMax = []int{0, 30, 80}[rng.Intn(3)]
	rs.Cancel2Mode = "none"
	if rng.Intn(4) == 0 && rs.J > 0 {
		// a second context for some of the jobs
		p2 := []float64{0.2, 0.5, 0.8}[rng.Intn(3)]
		for j := 1; j <= rs.J; j++ {
			c := 1
			if rng.Float64() < p2 {
				c = 2
			}
			rs.JCtx = append(rs.JCtx, c)
		}
		switch x := rng.Intn(10); {
		case x < 2:
			rs.Cancel2Mode = "none"
		case x < 4:
			rs.Cancel2Mode = "before"
		case x < 7:
			rs.Cancel2Mode, rs.Cancel2Arg = "atenq", 1+rng.Intn(rs.J)
		default:
			rs.Cancel2Mode, rs.Cancel2Arg = "timer", rng.Intn(400)
		}
	}
	return rs
}

// jctx returns the context number of job j.
func (rs *RunSpec) jctx(j int) int {
	if j-1 < len(rs.JCtx) && rs.JCtx[j-1] == 2 {
		return 2
	}
	return 1
}

// genFanin: jobs 1..J-2 independent, job J-1 depends on all of them, job J on J-1.
func genFanin(rng *rand.Rand, k, maxJ, maxN int) RunSpec {
	J := 200 + rng.Intn(maxJ-199)
	rs := RunSpec{Run: k, Seed: rng.Int63(), J: J, N: 1 + rng.Intn(maxN), Coe: rng.Intn(2) == 0, CancelMode: "none", Cancel2Mode: "none"}
	failing := 0
	if rng.Intn(2) == 0 {
		failing = 1 + rng.Intn(J-2)
	}
	for j := 1; j <= J; j++ {
		deps := []int{}
		if j == J-1 {
			for d := 1; d <= J-2; d++ {
				deps = append(deps, d)
			}
		} else if j == J {
			deps = []int{J - 1}
		}
		rs.Deps = append(rs.Deps, deps)
		o := "ok"
		if j == failing {
			o = "err"
		}
		rs.Out = append(rs.Out, o)
		rs.Cls = append(rs.Cls, j)
		rs.BodyUs = append(rs.BodyUs, 20+rng.Intn(60))
		rs.EnqUs = append(rs.EnqUs, 0)
	}
	return rs
}

// genCapacity: a prelude of jobs that kill their worker goroutine (some after cancelling the
// context they were enqueued with, some with a live one), then N jobs that must all be in flight
// at once.  ContinueOnError, so that the scheduler keeps going after the Goexits.
func genCapacity(rng *rand.Rand, k int) RunSpec {
	return genCapacityN(rng, k, 1+rng.Intn(4))
}

func genCapacityN(rng *rand.Rand, k int, n int) RunSpec {
	pre := rng.Intn(2*n + 2)
	// two more probe jobs than workers: exactly n of them must be in flight together, never more
	J := pre + n + 2
	rs := RunSpec{Run: k, Seed: rng.Int63(), J: J, N: n, Coe: true, CancelMode: "none", Cancel2Mode: "none", Barrier: n + 2}
	for j := 1; j <= J; j++ {
		rs.Deps = append(rs.Deps, []int{})
		o, c := "ok", 1
		if j <= pre {
			switch rng.Intn(5) {
			case 0:
				o = "goexit"
			case 1:
				o, c = "c2exit", 2
			case 2:
				o, c = "goexit", 2
			case 3:
				// the job returns the error of a nested scheduler one of whose jobs killed its goroutine
				o = "nested"
			}
		}
		rs.Out = append(rs.Out, o)
		rs.JCtx = append(rs.JCtx, c)
		rs.Cls = append(rs.Cls, j)
		rs.BodyUs = append(rs.BodyUs, rng.Intn(30))
		rs.EnqUs = append(rs.EnqUs, 0)
	}
	return rs
}

// genPrompt: see RunSpec.Hold.
func genPrompt(rng *rand.Rand, k int) RunSpec {
	n := 1 + rng.Intn(3)
	J := 1 + rng.Intn(5)
	rs := RunSpec{Run: k, Seed: rng.Int63(), J: J, N: n, Coe: rng.Intn(2) == 0, CancelMode: "none", Cancel2Mode: "none",
		Hold: 1 + rng.Intn(J), PromptOrder: []string{"cancel-first", "wait-first"}[rng.Intn(2)]}
	for j := 1; j <= J; j++ {
		deps := []int{}
		if j > rs.Hold && rng.Intn(2) == 0 {
			deps = append(deps, rs.Hold)
		}
		rs.Deps = append(rs.Deps, deps)
		rs.Out = append(rs.Out, []string{"ok", "ok", "err"}[rng.Intn(3)])
		rs.Cls = append(rs.Cls, j)
		rs.BodyUs = append(rs.BodyUs, rng.Intn(40))
		rs.EnqUs = append(rs.EnqUs, 0)
	}
	rs.Out[rs.Hold-1] = "ok"
	return rs
}

// genWide: many workers (more than any fixed buffer size one might pick for the result channel), fail-fast,
// one early failure while all other jobs are in flight and return only after the loop has stopped: every
// worker must still be able to post its result and exit (C05, C06).
func genWide(rng *rand.Rand, k int) RunSpec {
	n := []int{70, 100, 130, 260}[rng.Intn(4)]
	J := n + rng.Intn(30)
	rs := RunSpec{Run: k, Seed: rng.Int63(), J: J, N: n, Coe: rng.Intn(4) == 0, CancelMode: "none", Cancel2Mode: "none"}
	// the failing job is among the last to be picked up and quicker than the others: when the loop reads its
	// failure nearly all workers are inside a body
	failing := n - 1 - rng.Intn(5)
	for j := 1; j <= J; j++ {
		rs.Deps = append(rs.Deps, []int{})
		// long enough for the caller to have enqueued everything (an Enqueue with its stamped log entries costs
		// ~0.1 ms with hundreds of workers): the other bodies are still running when the failure is read
		o, b := "ok", 40000+300*J+rng.Intn(3000)
		if j == failing {
			o, b = "err", 500
		}
		rs.Out = append(rs.Out, o)
		rs.Cls = append(rs.Cls, j)
		rs.BodyUs = append(rs.BodyUs, b)
		rs.EnqUs = append(rs.EnqUs, 0)
	}
	return rs
}

// genConcEnq: concurrent use of Enqueue (C12: it is safe; C01 etc. must hold all the same).
func genConcEnq(rng *rand.Rand, k int) RunSpec {
	K := 2 + rng.Intn(4)
	J := K * (1 + rng.Intn(6))
	rs := RunSpec{Run: k, Seed: rng.Int63(), J: J, N: 1 + rng.Intn(4), Coe: rng.Intn(2) == 0, CancelMode: "none", Cancel2Mode: "none", Enqueuers: K}
	pfail := []float64{0, 0.1, 0.3}[rng.Intn(3)]
	for j := 1; j <= J; j++ {
		deps := []int{}
		for d := j - K; d >= 1; d -= K {
			if rng.Intn(3) == 0 {
				deps = append(deps, d)
			}
		}
		rs.Deps = append(rs.Deps, deps)
		o := "ok"
		if rng.Float64() < pfail {
			o = "err"
		}
		rs.Out = append(rs.Out, o)
		rs.Cls = append(rs.Cls, j)
		rs.BodyUs = append(rs.BodyUs, rng.Intn(60))
		rs.EnqUs = append(rs.EnqUs, rng.Intn(30))
	}
	return rs
}

// genPileup steers towards the states in which results pile up unread in donec while the caller
// keeps enqueueing dependency-free jobs: fail-fast, 2-4 workers, instant bodies, one early failure,
// and an Emitter callback (it runs on the loop goroutine) that keeps the loop away from its select
// for a few hundred microseconds at a time.  If the loop ever has more jobs outstanding than
// donec can hold, the fail-fast exit leaves a worker blocked in its send for good (C06), and the
// state reports show more executing jobs than workers (C19).
func genPileup(rng *rand.Rand, k int) RunSpec {
	n := 2 + rng.Intn(3)
	J := n + 3 + rng.Intn(8)
	rs := RunSpec{Run: k, Seed: rng.Int63(), J: J, N: n, Coe: false, CancelMode: "none", Cancel2Mode: "none", Emit: true,
		EmitSleepUs: 100 + rng.Intn(400), PerturbP: []float64{0, 0.3}[rng.Intn(2)], PerturbMax: 40}
	failing := 1 + rng.Intn(n)
	for j := 1; j <= J; j++ {
		rs.Deps = append(rs.Deps, []int{})
		o := "ok"
		if j == failing {
			o = "err"
		}
		rs.Out = append(rs.Out, o)
		rs.Cls = append(rs.Cls, j)
		rs.BodyUs = append(rs.BodyUs, 0)
		e := 0
		if j > n {
			e = rng.Intn(120)
		}
		rs.EnqUs = append(rs.EnqUs, e)
	}
	return rs
}

type stateEmitter struct {
	x     *exec
	sleep int
	rng   *rand.Rand
}

func (e *stateEmitter) Emit(s scheduler.State) {
	e.x.log.Add(vt.APIEvent{Ev: "state", Run: e.x.rs.Run, P: s.Pending, R: s.Ready, W: s.Waiting, Idle: s.IdleWorkers, C: s.Concurrency})
	if e.sleep > 0 {
		time.Sleep(time.Duration(e.rng.Intn(e.sleep+1)) * time.Microsecond)
	}
}

type exec struct {
	rs          RunSpec
	log         *vt.APILog
	errs        map[int]error // class -> error value
	cancel      context.CancelFunc
	cmu         sync.Mutex
	cdone       bool
	cbegun      bool
	ctx2        context.Context
	cancel2     context.CancelFunc
	c2done      bool
	c2begun     bool
	inBody      int32
	inBar       int32         // barrier jobs in flight
	maxBar      int32         // most barrier jobs ever in flight together
	barFull     chan struct{} // closed when all barrier jobs are in flight
	barRelease  chan struct{} // closed by the driver when the barrier cannot fill
	barVerdict  string
	heldRel     chan struct{} // phased runs: closed to release the held bodies
	heldRelOnce sync.Once
	barOnce     sync.Once
	holdc       chan struct{} // closed to release the held body
	heldc       chan struct{} // closed when the held body has started
	heldOnce    sync.Once
	nostamp     bool
	col         *vt.Collector
	gate        func(j int) // scripted runs: blocks the body of job j until released
	over        int32       // set when the run has been judged; late timers must not log into the next run
}

// doCancel cancels the context and stamps the Cancel event after cancel()
// has returned.
func (x *exec) doCancel() {
	x.cmu.Lock()
	if !x.cbegun && !x.nostamp && atomic.LoadInt32(&x.over) == 0 {
		x.log.Add(vt.APIEvent{Ev: "cancel_begin", Run: x.rs.Run})
	}
	x.cbegun = true
	x.cmu.Unlock()
	x.cancel()
	x.cmu.Lock()
	first := !x.cdone
	x.cdone = true
	x.cmu.Unlock()
	if first && !x.nostamp && atomic.LoadInt32(&x.over) == 0 {
		x.log.Add(vt.APIEvent{Ev: "cancel", Run: x.rs.Run})
	}
}

// doCancel2 does the same for the second context.
func (x *exec) doCancel2() {
	x.cmu.Lock()
	if !x.c2begun && !x.nostamp && atomic.LoadInt32(&x.over) == 0 {
		x.log.Add(vt.APIEvent{Ev: "cancel2_begin", Run: x.rs.Run})
	}
	x.c2begun = true
	x.cmu.Unlock()
	x.cancel2()
	x.cmu.Lock()
	first := !x.c2done
	x.c2done = true
	x.cmu.Unlock()
	if first && !x.nostamp && atomic.LoadInt32(&x.over) == 0 {
		x.log.Add(vt.APIEvent{Ev: "cancel2", Run: x.rs.Run})
	}
}

type ctxKey struct{}

func effN(n int) int {
	if n != 0 {
		return n
	}
	n = runtime.GOMAXPROCS(0)
	if n < 4 {
		n = 4
	}
	return n
}

func (x *exec) classify(err error) (string, []vt.Tok) {
	if err == nil {
		return "nil", nil
	}
	var parts []error
	if x.rs.Coe {
		parts = multierr.Errors(err)
	} else {
		parts = []error{err}
	}
	if len(parts) == 1 && (errors.Is(parts[0], context.Canceled) || errors.Is(parts[0], context.DeadlineExceeded)) {
		return "ctx", nil
	}
	var toks []vt.Tok
	for _, e := range parts {
		toks = append(toks, x.tok(e))
	}
	return "errs", toks
}

func (x *exec) tok(e error) vt.Tok {
	for c, ev := range x.errs {
		if e == ev { // the very error value
			return vt.Tok{K: "E", N: c}
		}
	}
	switch {
	case errors.Is(e, scheduler.VerifErrJobInvalid):
		return vt.Tok{K: "INV"}
	case errors.Is(e, context.Canceled), errors.Is(e, context.DeadlineExceeded):
		return vt.Tok{K: "CTX"}
	case e.Error() == "job exited unexpectedly":
		return vt.Tok{K: "X"}
	}
	return vt.Tok{K: "?"}
}

// prompt runs the rest of a run with a held body (RunSpec.Hold).
func (x *exec) prompt(ctx context.Context, s *scheduler.Scheduler) {
	rs := &x.rs
	select {
	case <-x.heldc:
	case <-time.After(2 * time.Second):
		// the held job never started (e.g. it depends on nothing but no worker took it): not a promptness case
		close(x.holdc)
		x.log.Add(vt.APIEvent{Ev: "waitcall", Run: rs.Run})
		err := s.Wait(ctx)
		kind, toks := x.classify(err)
		x.log.Add(vt.APIEvent{Ev: "waitret", Run: rs.Run, Kind: kind, Toks: toks})
		return
	}
	returned := make(chan struct{})
	wait := func() {
		x.log.Add(vt.APIEvent{Ev: "waitcall", Run: rs.Run})
		err := s.Wait(ctx)
		kind, toks := x.classify(err)
		x.log.Add(vt.APIEvent{Ev: "waitret", Run: rs.Run, Kind: kind, Toks: toks})
		close(returned)
	}
	if rs.PromptOrder == "cancel-first" {
		x.doCancel()
		go wait()
	} else {
		go wait()
		time.Sleep(200 * time.Microsecond)
		x.doCancel()
	}
	// Wait must return while the held body is still running. Not returning is decided by the goroutine
	// dump (everything parked for good while the body is held), never by the clock alone.
	switch vt.WaitOrStuck(returned, 1500*time.Millisecond, time.Second, 12*time.Second, x.interesting, x.log.Progress) {
	case "done":
		x.log.Add(vt.APIEvent{Ev: "prompt", Run: rs.Run, P: 1, Job: rs.Hold})
	case "stuck":
		x.log.Add(vt.APIEvent{Ev: "prompt", Run: rs.Run, P: 0, Job: rs.Hold})
	default:
		x.log.Add(vt.APIEvent{Ev: "info", Run: rs.Run, Note: "probe skipped: neither prompt nor provably stuck"})
	}
	close(x.holdc)
	<-returned
}

// interesting lists the goroutines a probe looks at: the scheduler's and the driver's, without the caller.
func (x *exec) interesting() []vt.Goroutine {
	var out []vt.Goroutine
	self := vt.GoID()
	for _, g := range vt.Dump() {
		if g.ID == self {
			continue
		}
		if strings.Contains(g.Text, "go.uber.org/cff/scheduler.") || strings.Contains(g.Text, "main.execRun.func") || strings.Contains(g.Text, "main.(*exec).") {
			out = append(out, g)
		}
	}
	return out
}

// ctxOf returns the context job j is enqueued with.
func (x *exec) ctxOf(ctx context.Context, j int) context.Context {
	if x.rs.jctx(j) == 2 {
		return x.ctx2
	}
	return ctx
}

func sleepUs(us int) {
	switch {
	case us < 0:
		runtime.Gosched()
	case us > 0:
		time.Sleep(time.Duration(us) * time.Microsecond)
	}
}

func (x *exec) body(j int) func(context.Context) error {
	rs := &x.rs
	return func(ctx context.Context) error {
		if !x.nostamp {
			// (under the race detector, -nostamp, the bodies touch no shared state at all: an atomic
			// counter polled by the caller would order the caller's accesses before the workers' and
			// hide races between the scheduler's goroutines)
			atomic.AddInt32(&x.inBody, 1)
			defer atomic.AddInt32(&x.inBody, -1)
		}
		if !x.nostamp {
			note := ""
			want := "marker"
			if rs.jctx(j) == 2 {
				want = "marker2"
			}
			if ctx.Value(ctxKey{}) != want {
				note = "wrongctx"
			}
			x.log.Add(vt.APIEvent{Ev: "start", Run: rs.Run, Job: j, G: vt.GoID(), Note: note})
		}
		sleepUs(rs.BodyUs[j-1])
		if x.gate != nil {
			x.gate(j)
		}
		if rs.Hold == j {
			x.heldOnce.Do(func() { close(x.heldc) })
			select {
			case <-x.holdc:
			case <-time.After(40 * time.Second): // never block a body for good
			}
		}
		if rs.Cut > 0 && rs.held(j) {
			select {
			case <-x.heldRel:
			case <-time.After(20 * time.Second): // never block a body for good
			}
		}
		o := rs.Out[j-1]
		if o == "cancel" {
			x.doCancel()
		}
		if o == "c2exit" {
			x.doCancel2()
		}
		if rs.Barrier > 0 && j > rs.J-rs.Barrier {
			n := atomic.AddInt32(&x.inBar, 1)
			for {
				m := atomic.LoadInt32(&x.maxBar)
				if n <= m || atomic.CompareAndSwapInt32(&x.maxBar, m, n) {
					break
				}
			}
			if int(n) == effN(rs.N) {
				x.barOnce.Do(func() { close(x.barFull) })
			}
			select {
			case <-x.barFull:
				time.Sleep(300 * time.Microsecond) // stay in flight a little: a surplus worker would show now
			case <-x.barRelease: // the driver found the scheduler provably unable to fill the barrier (or gave up)
			}
			atomic.AddInt32(&x.inBar, -1)
		}
		if o == "nested" {
			inner := scheduler.Config{Concurrency: 1}.New()
			inner.Enqueue(ctx, scheduler.Job{Run: func(context.Context) error { runtime.Goexit(); return nil }})
			x.cmu.Lock()
			x.errs[rs.Cls[j-1]] = inner.Wait(ctx)
			x.cmu.Unlock()
		}
		out := map[string]string{"ok": "ok", "cancel": "ok", "err": "err", "goexit": "exit", "c2exit": "exit", "nested": "err"}[o]
		if !x.nostamp {
			x.log.Add(vt.APIEvent{Ev: "end", Run: rs.Run, Job: j, Out: out})
		}
		switch o {
		case "err", "nested":
			x.cmu.Lock()
			defer x.cmu.Unlock()
			return x.errs[rs.Cls[j-1]]
		case "goexit", "c2exit":
			runtime.Goexit()
		}
		return nil
	}
}

// execRun executes one run on the real scheduler.
func execRun(rs RunSpec, log *vt.APILog, col *vt.Collector, nostamp bool, deadline time.Duration) (hang bool) {
	x := &exec{rs: rs, log: log, errs: map[int]error{}, nostamp: nostamp, col: col, barFull: make(chan struct{}), barRelease: make(chan struct{}), heldRel: make(chan struct{}),
		holdc: make(chan struct{}), heldc: make(chan struct{})}
	if col != nil {
		col.ResetSeen()
	}
	for _, c := range rs.Cls {
		if x.errs[c] == nil {
			x.errs[c] = fmt.Errorf("error of class %d", c)
		}
	}
	if col != nil {
		col.PerturbP, col.PerturbMax = rs.PerturbP, rs.PerturbMax
		col.FocusEv, col.FocusNth, col.FocusDelay = rs.FocusEv, rs.FocusNth, time.Duration(rs.FocusUs)*time.Microsecond
	}
	rng := rand.New(rand.NewSource(rs.Seed))
	jc := make([]int, rs.J)
	for j := 1; j <= rs.J; j++ {
		jc[j-1] = rs.jctx(j)
	}
	log.Add(vt.APIEvent{Ev: "reset", Run: rs.Run, NJ: rs.J, N: effN(rs.N), Coe: rs.Coe, Deps: rs.Deps, Cls: rs.Cls, JC: jc})

	base := context.WithValue(context.Background(), ctxKey{}, "marker")
	ctx, cancel := context.WithCancel(base)
	if rs.CancelMode == "deadline" {
		// The context ends by its deadline; the Cancel event is stamped by a
		// watcher after Done() is closed.
		cancel()
		if !nostamp {
			log.Add(vt.APIEvent{Ev: "cancel_begin", Run: rs.Run})
		}
		x.cbegun = true
		ctx, cancel = context.WithTimeout(base, time.Duration(rs.CancelArg)*time.Microsecond)
		go func(c context.Context) {
			<-c.Done()
			x.cmu.Lock()
			first := !x.cdone
			x.cdone = true
			x.cmu.Unlock()
			if first && !nostamp && atomic.LoadInt32(&x.over) == 0 {
				log.Add(vt.APIEvent{Ev: "cancel", Run: rs.Run})
			}
		}(ctx)
	}
	x.cancel = cancel
	defer cancel()
	x.ctx2, x.cancel2 = context.WithCancel(context.WithValue(context.Background(), ctxKey{}, "marker2"))
	defer x.cancel2()
	defer atomic.StoreInt32(&x.over, 1)

	cfg := scheduler.Config{Concurrency: rs.N, ContinueOnError: rs.Coe}
	if rs.Emit {
		cfg.Emitter = &stateEmitter{x: x, sleep: rs.EmitSleepUs, rng: rng}
		cfg.StateFlushFrequency = time.Nanosecond
	}

	finished := make(chan struct{})
	go func() {
		defer close(finished)
		if len(rs.Script) > 0 {
			x.scripted(ctx, cfg)
			return
		}
		if rs.CancelMode == "before" {
			x.doCancel()
		}
		if rs.Cancel2Mode == "before" {
			x.doCancel2()
		}
		s := cfg.New()
		if rs.Cancel2Mode == "timer" {
			d := time.Duration(rs.Cancel2Arg) * time.Microsecond
			go func() { time.Sleep(d); x.doCancel2() }()
		}
		if rs.CancelMode == "timer" {
			d := time.Duration(rs.CancelArg) * time.Microsecond
			go func() { time.Sleep(d); x.doCancel() }()
		}
		handles := make([]*scheduler.ScheduledJob, rs.J+1)
		if rs.Enqueuers > 1 {
			var wg sync.WaitGroup
			for g := 0; g < rs.Enqueuers; g++ {
				wg.Add(1)
				go func(g int) {
					defer wg.Done()
					for j := 1; j <= rs.J; j++ {
						if j%rs.Enqueuers != g {
							continue
						}
						sleepUs(rs.EnqUs[j-1])
						var deps []*scheduler.ScheduledJob
						for _, d := range rs.Deps[j-1] {
							deps = append(deps, handles[d]) // written by this goroutine earlier
						}
						if !nostamp {
							log.Add(vt.APIEvent{Ev: "submit", Run: rs.Run, Job: j})
						}
						handles[j] = s.Enqueue(ctx, scheduler.Job{Run: x.body(j), Dependencies: deps})
					}
				}(g)
			}
			wg.Wait()
		}
		for j := 1; j <= rs.J && rs.Enqueuers <= 1; j++ {
			sleepUs(rs.EnqUs[j-1])
			if rs.Barrier > 0 && j == rs.J-rs.Barrier+1 {
				// the capacity probe starts once everything before it has finished and the
				// scheduler has had time to replace the workers that died
				for i := 0; i < 2000 && atomic.LoadInt32(&x.inBody) > 0; i++ {
					time.Sleep(100 * time.Microsecond)
				}
				time.Sleep(2 * time.Millisecond)
			}
			if rs.Cut > 0 && j == rs.Cut+1 {
				// phase one comes to rest: nothing logged for 2 ms and only held bodies in flight
				last, since := log.Progress(), time.Now()
				for i := 0; i < 3000 && (time.Since(since) < 2*time.Millisecond || int(atomic.LoadInt32(&x.inBody)) > len(rs.Held)); i++ {
					time.Sleep(100 * time.Microsecond)
					if p := log.Progress(); p != last {
						last, since = p, time.Now()
					}
				}
			}
			if rs.CancelMode == "atenq" && rs.CancelArg == j {
				x.doCancel()
			}
			if rs.Cancel2Mode == "atenq" && rs.Cancel2Arg == j {
				x.doCancel2()
			}
			deps := depsOf(&rs, handles, j)
			if !nostamp {
				log.Add(vt.APIEvent{Ev: "submit", Run: rs.Run, Job: j})
			}
			handles[j] = s.Enqueue(x.ctxOf(ctx, j), scheduler.Job{Run: x.body(j), Dependencies: deps})
		}
		if rs.Cut > 0 {
			d := time.Duration(rs.HeldRelUs) * time.Microsecond
			go func() { time.Sleep(d); x.heldRelOnce.Do(func() { close(x.heldRel) }) }()
		}
		sleepUs(rs.WaitUs)
		if rs.Barrier > 0 {
			// under-capacity is decided by the goroutine dump, not by a timeout
			x.barVerdict = vt.WaitOrStuck(x.barFull, 1500*time.Millisecond, time.Second, 12*time.Second, x.interesting,
				func() int64 { return log.Progress() + int64(atomic.LoadInt32(&x.maxBar)) })
			close(x.barRelease)
		}
		if rs.Hold > 0 {
			x.prompt(ctx, s)
			return
		}
		if !nostamp {
			log.Add(vt.APIEvent{Ev: "waitcall", Run: rs.Run})
		}
		err := s.Wait(ctx)
		kind, toks := x.classify(err)
		log.Add(vt.APIEvent{Ev: "waitret", Run: rs.Run, Kind: kind, Toks: toks})
		if rs.Barrier > 0 && !nostamp && x.barVerdict == "slow" && int(atomic.LoadInt32(&x.maxBar)) < effN(rs.N) {
			log.Add(vt.APIEvent{Ev: "info", Run: rs.Run, Note: "probe skipped: barrier neither full nor provably stuck"})
		} else if rs.Barrier > 0 && !nostamp {
			log.Add(vt.APIEvent{Ev: "capacity", Run: rs.Run, P: int(atomic.LoadInt32(&x.maxBar)), C: effN(rs.N)})
		}
	}()

	select {
	case <-finished:
	case <-time.After(deadline):
		// Watchdog: is the caller stuck for good?
		stuck, gs := vt.ConfirmStuckP(func() []vt.Goroutine {
			var out []vt.Goroutine
			self := vt.GoID()
			for _, g := range vt.Dump() {
				if g.ID == self {
					continue // the watchdog itself
				}
				if strings.Contains(g.Text, "go.uber.org/cff/scheduler.") || strings.Contains(g.Text, "main.execRun.func") {
					out = append(out, g)
				}
			}
			return out
		}, 2*time.Second, log.Progress)
		select {
		case <-finished:
			stuck = false
		default:
		}
		if stuck {
			log.Add(vt.APIEvent{Ev: "hang", Run: rs.Run, Note: summarise(gs)})
			return true
		}
		select {
		case <-finished:
		case <-time.After(10 * deadline):
			log.Add(vt.APIEvent{Ev: "slow", Run: rs.Run, Note: "caller neither returned nor provably stuck: " + summarise(gs)})
			return true
		}
	}
	// Quiescence: bodies that were started run to completion (none blocks),
	// then every scheduler goroutine has to go away.
	// (A body may still start after Wait has returned, so this is a poll, not a WaitGroup.)
	if nostamp {
		time.Sleep(3 * time.Millisecond) // longer than any body; no synchronisation with the workers
	}
	left := vt.WaitNoSchedulerGoroutines(3 * time.Second)
	for i := 0; i < 3000 && atomic.LoadInt32(&x.inBody) > 0; i++ {
		time.Sleep(time.Millisecond)
	}
	if len(left) > 0 {
		stuck, gs := vt.ConfirmStuck(vt.SchedulerGoroutines, time.Second)
		if len(gs) > 0 {
			note := summarise(gs)
			if !stuck {
				note = "not provably stuck: " + note
			}
			log.Add(vt.APIEvent{Ev: "leak", Run: rs.Run, P: len(gs), Note: note})
			return true
		}
	}
	log.Add(vt.APIEvent{Ev: "quiet", Run: rs.Run})
	return false
}

func summarise(gs []vt.Goroutine) string {
	var sb strings.Builder
	for i, g := range gs {
		if i >= 6 {
			break
		}
		lines := strings.Split(g.Text, "\n")
		fn := ""
		for _, l := range lines[1:] {
			if strings.Contains(l, "cff/scheduler.") {
				fn = strings.TrimSpace(l)
				if k := strings.Index(fn, "("); k > 0 {
					fn = fn[:k]
				}
				break
			}
		}
		fmt.Fprintf(&sb, "g%d[%s]@%s; ", g.ID, g.State, fn)
	}
	return sb.String()
}

var stampCounter int64

func main() {
	mode := flag.String("mode", "random", "random | replay | script")
	seed := flag.Int64("seed", 1, "")
	runs := flag.Int("runs", 100, "")
	maxJ := flag.Int("maxj", 8, "")
	maxN := flag.Int("maxn", 3, "")
	out := flag.String("out", "", "output directory")
	in := flag.String("in", "", "input file (replay: RunSpec ndjson; script: TLC behaviours)")
	nostamp := flag.Bool("nostamp", false, "no stamps, no hooks: plain bodies (for the race detector)")
	nohooks := flag.Bool("nohooks", false, "do not install the hook collector")
	defaultN := flag.Bool("defaultn", false, "capacity mode: leave Concurrency unset (the default limit max(GOMAXPROCS, 4) is probed)")
	deadline := flag.Duration("deadline", 5*time.Second, "per-run watchdog deadline")
	flag.Parse()
	_ = atomic.AddInt64(&stampCounter, 0)
	if *out == "" {
		fmt.Fprintln(os.Stderr, "need -out")
		os.Exit(2)
	}
	os.MkdirAll(*out, 0o755)
	apiF, err := os.Create(filepath.Join(*out, "api.ndjson"))
	must(err)
	specF, err := os.Create(filepath.Join(*out, "runs.ndjson"))
	must(err)
	var col *vt.Collector
	if !*nostamp && !*nohooks {
		col = vt.NewCollector(*seed)
	}
	log := &vt.APILog{}
	var specs []RunSpec
	switch *mode {
	case "random":
		rng := rand.New(rand.NewSource(*seed))
		for k := 1; k <= *runs; k++ {
			specs = append(specs, genRun(rng, k, *maxJ, *maxN))
		}
	case "focus":
		rng := rand.New(rand.NewSource(*seed))
		for k := 1; k <= *runs; k++ {
			specs = append(specs, genFocus(rng, k, *maxJ, *maxN))
		}
	case "phased":
		rng := rand.New(rand.NewSource(*seed))
		for k := 1; k <= *runs; k++ {
			specs = append(specs, genPhased(rng, k))
		}
	case "fanin":
		// wide fan-in: one job depends on hundreds of others (End hooks of large collections,
		// counters that might be narrower than int), in both modes, with and without a failure
		rng := rand.New(rand.NewSource(*seed))
		for k := 1; k <= *runs; k++ {
			specs = append(specs, genFanin(rng, k, *maxJ, *maxN))
		}
	case "capacity":
		rng := rand.New(rand.NewSource(*seed))
		for k := 1; k <= *runs; k++ {
			rs := genCapacity(rng, k)
			if *defaultN {
				// as many probe jobs as the default limit allows, plus two
				rs = genCapacityN(rng, k, effN(0))
				rs.N = 0
			}
			specs = append(specs, rs)
		}
	case "prompt":
		rng := rand.New(rand.NewSource(*seed))
		for k := 1; k <= *runs; k++ {
			specs = append(specs, genPrompt(rng, k))
		}
	case "wide":
		rng := rand.New(rand.NewSource(*seed))
		for k := 1; k <= *runs; k++ {
			specs = append(specs, genWide(rng, k))
		}
	case "concenq":
		rng := rand.New(rand.NewSource(*seed))
		for k := 1; k <= *runs; k++ {
			specs = append(specs, genConcEnq(rng, k))
		}
	case "pileup":
		rng := rand.New(rand.NewSource(*seed))
		for k := 1; k <= *runs; k++ {
			specs = append(specs, genPileup(rng, k))
		}
	case "replay":
		specs = readSpecs(*in)
	case "script":
		specs = readScripts(*in, *runs, *seed)
	default:
		fmt.Fprintln(os.Stderr, "unknown mode")
		os.Exit(2)
	}
	var traces []vt.HookTrace
	abnormal := 0
	for _, rs := range specs {
		b, _ := json.Marshal(rs)
		specF.Write(append(b, '\n'))
		bad := execRun(rs, log, col, *nostamp, *deadline)
		must(vt.WriteNDJSON(apiF, log.Take()))
		if col != nil {
			ts := col.TakeAll(rs.Run)
			for i := range ts {
				for j := 1; j <= ts[i].NJ; j++ {
					ts[i].JCtx = append(ts[i].JCtx, rs.jctx(j))
				}
			}
			if !bad {
				traces = append(traces, ts...)
			}
		}
		if bad {
			abnormal++
			if abnormal >= 8 {
				break // leaked goroutines pile up; enough evidence
			}
		}
	}
	apiF.Close()
	specF.Close()
	if col != nil {
		if traces == nil {
			traces = []vt.HookTrace{}
		}
		b, err := json.Marshal(map[string]interface{}{"traces": traces})
		must(err)
		must(os.WriteFile(filepath.Join(*out, "hook.json"), b, 0o644))
	}
	fmt.Printf("scheddrv: runs=%d abnormal=%d hooktraces=%d\n", len(specs), abnormal, len(traces))
}

func must(err error) {
	if err != nil {
		fmt.Fprintln(os.Stderr, "scheddrv:", err)
		os.Exit(2)
	}
}

func readSpecs(path string) []RunSpec {
	b, err := os.ReadFile(path)
	must(err)
	var out []RunSpec
	for _, l := range strings.Split(string(b), "\n") {
		if strings.TrimSpace(l) == "" {
			continue
		}
		var rs RunSpec
		must(json.Unmarshal([]byte(l), &rs))
		out = append(out, rs)
	}
	return out
}
