"""Abstract programs -> cff source packages (the renderer of DESIGN.md §4.4), plus the seeded
generators of abstract programs and of scenarios.

An abstract program is a dict with the fields of harness/pkg/h.Prog plus a "style" dict that
only the renderer reads (how value types are spelled, the order in which options are listed,
how task functions are written, the emitter arrangement)."""
import json, os, random, re

REPO = os.environ.get("VERIF_REPO", "/repo")
HARNESS_OVERRIDE = None     # set by gen_checks when the harness module is a scratch copy

KINDS = ["struct", "ptr", "int", "slice", "map", "generic", "ext", "any", "bytes", "ustruct"]
PARAM_KINDS = KINDS + ["errv", "errv"]     # the type error can only come from cff.Params (a task's error result is not a value)
SENTINEL = "h.Sentinel"


# ------------------------------------------------------------------ value types
class Ty:
    def __init__(self, prog, k, kind):
        if kind == "ext" and k > 12:
            kind = "struct"
        self.k, self.kind = k, kind
        self.n = "%sT%d" % (prog, k)

    def decl(self):
        n = self.n
        if self.kind == "struct":
            return "type %s struct{ Tok int }\n" % n
        if self.kind == "ptr":
            return ("type %s struct{ Tok int }\n\nfunc tok%s(p *%s) int {\n\tif p == nil {\n\t\treturn 0\n\t}\n\treturn p.Tok\n}\n" % (n, n, n))
        if self.kind == "int":
            return "type %s int\n" % n
        if self.kind == "slice":
            return ("type %sE struct{ Tok int }\n\nfunc tok%s(s []%sE) int {\n\tif len(s) == 0 {\n\t\treturn 0\n\t}\n\treturn s[0].Tok\n}\n" % (n, n, n))
        if self.kind == "map":
            return "type %sE struct{ Tok int }\n" % n
        if self.kind == "generic":
            return "type %s[T any] struct {\n\tV   T\n\tTok int\n}\n" % n
        return ""

    def go(self, alt=False):
        """The Go spelling of the type; alt: another spelling of the identical type (any / interface{},
        []byte / []uint8): provider and consumer need not spell a type the same way."""
        n = self.n
        if alt and self.kind == "any":
            return "interface{}"
        if alt and self.kind == "bytes":
            return "[]uint8"
        return {"struct": n, "ptr": "*" + n, "int": n, "slice": "[]%sE" % n, "map": "map[string]%sE" % n,
                "generic": "%s[string]" % n, "ext": "ext.E%d" % self.k, "any": "any", "errv": "error", "bytes": "[]byte",
                "ustruct": "struct{ Tok int }"}[self.kind]       # an unnamed struct type, written out at every use

    def mk(self, tok):
        n = self.n
        return {"struct": "%s{Tok: %s}" % (n, tok), "ptr": "&%s{Tok: %s}" % (n, tok), "int": "%s(%s)" % (n, tok),
                "slice": "[]%sE{{Tok: %s}}" % (n, tok), "map": 'map[string]%sE{"k": {Tok: %s}}' % (n, tok),
                "generic": "%s[string]{Tok: %s}" % (n, tok), "ext": "ext.E%d{Tok: %s}" % (self.k, tok),
                "any": "any(h.TokBox{Tok: %s})" % tok, "errv": "h.TokErr(%s)" % tok, "bytes": "h.TokBytes(%s)" % tok,
                "ustruct": "struct{ Tok int }{Tok: %s}" % tok}[self.kind]

    def acc(self, v):
        n = self.n
        return {"struct": "%s.Tok" % v, "ptr": "tok%s(%s)" % (n, v), "int": "int(%s)" % v,
                "slice": "tok%s(%s)" % (n, v), "map": '%s["k"].Tok' % v, "generic": "%s.Tok" % v,
                "ext": "%s.Tok" % v, "any": "h.AnyTok(%s)" % v, "errv": "h.ErrTok(%s)" % v, "bytes": "h.BytesTok(%s)" % v, "ustruct": "%s.Tok" % v}[self.kind]


# ------------------------------------------------------------------ rendering
# identifiers the generated code introduces itself; user variables with these names are passed as
# bare-identifier arguments (C15: generated identifiers never capture or shadow user names)
GEN_NAMES = ["tasks", "emitter", "sched", "flowInfo", "startTime", "task0", "task1", "task2", "pred1", "v1", "v2", "v3",
             "schedInfo", "flowEmitter", "val", "idx", "key", "p1", "sliceTask0Slice", "mapTask1Jobs", "recovered",
             "taskEmitter", "directiveInfo", "parallelInfo", "parallelEmitter", "schedEmitter", "sliceTask0Jobs", "t"]


class W:
    """Source writer for the argument expressions of one directive.  Every user expression is wrapped in
    h.Arg(x, k, expr), which logs evaluation number k; the numbers follow source order.  An argument is
    spelled in one of several syntactic forms (the generator hoists user expressions into its prologue and
    must do so whatever the expression looks like):
      call   - the wrapped expression itself, h.Arg(x, k, expr);
      ident  - a variable declared before the directive, named like an identifier generated code uses,
               initialised with the wrapped expression and passed as a bare identifier;
      method - (function positions only) a method value recv.Run whose receiver is the wrapped expression;
      raw    - (function positions only) the function literal itself, or the bare name of a function declared at
               package level (it finds its execution through its context argument), unwrapped and unnumbered;
      shared - (function positions only) ONE method used by several predicates / tasks of the directive with
               different receiver values (the receiver carries the unit's id)."""

    def __init__(self, forms=None, seed=0):
        self.args = []          # (expr, form)
        self.rng = random.Random(seed)
        self.forms = forms or ["call"]
        self.k = 0

    def arg(self, expr, form=None):
        if getattr(self, "pending_mut", None):
            # h.ArgThen logs the evaluation like h.Arg and then runs the side effect
            expr, form = "h.Then(func() { %s}, %s)" % (self.pending_mut, expr), "call"
            self.pending_mut = None
        form = form or self.rng.choice(self.forms)
        if form == "raw" and "h.Then(" in expr:
            form = "call"
        self.args.append((expr, form))
        return "\x00%d\x00" % (len(self.args) - 1)

    def finish(self, text):
        """Replaces the placeholders in the directive's text. Returns (statements to put before the
        directive, text).  Variables declared before the directive are evaluated first, in order."""
        order = [int(m) for m in re.findall("\x00(\\d+)\x00", text)]
        names = [n for n in GEN_NAMES if n not in getattr(self, "reserved", ())]
        self.rng.shuffle(names)
        pre, num, sub = [], {}, {}
        k = 0
        for i in order:
            if self.args[i][1] == "ident" and names:
                k += 1
                nm = names.pop()
                pre.append("\t%s := h.Arg(x, %d, %s)\n" % (nm, k, self.args[i][0]))
                sub[i] = nm
        for i in order:
            if i not in sub and self.args[i][1] == "raw":
                sub[i] = self.args[i][0]       # a function literal or the name of a declared function, as users write them
        for i in order:
            if i not in sub:
                k += 1
                sub[i] = "h.Arg(x, %d, %s)" % (k, self.args[i][0])
        self.k = k
        # expressions may themselves contain placeholders only at top level of the directive, never nested
        text = re.sub("\x00(\\d+)\x00", lambda m: sub[int(m.group(1))], text)
        return "".join(pre), text


def unit(prog, uid):
    for u in prog["units"]:
        if u["id"] == uid:
            return u
    raise KeyError(uid)


def gen_emit_tree(rng, max_leaves=4):
    """A forest of emitter expressions: ["L"] a recording leaf, ["N"] cff.NopEmitter(), ["S", child...] an
    EmitterStack (possibly empty, possibly of one element), nested up to depth 3.  Returns (forest, leaves)."""
    left = [rng.randint(1, max_leaves)]

    def node(depth):
        r = rng.random()
        if depth >= 3 or r < 0.45:
            if left[0] > 0 and rng.random() < 0.8:
                left[0] -= 1
                return ["L"]
            return ["N"]
        return ["S"] + [node(depth + 1) for _ in range(rng.choice([0, 1, 2, 2, 3]))]

    forest = [node(1) for _ in range(rng.choice([1, 2, 2, 3]))]
    count = [0]

    def walk(n):
        if n[0] == "L":
            count[0] += 1
        for ch in n[1:]:
            walk(ch)
    for n in forest:
        walk(n)
    if count[0] == 0:
        forest.append(["L"])
        count[0] = 1
    return forest, count[0]


def emit_tree_exprs(forest):
    """Go expressions of the forest; recording leaves are numbered in depth-first order."""
    k = [0]

    def expr(n):
        if n[0] == "L":
            k[0] += 1
            return "x.Emitter(%d)" % k[0]
        if n[0] == "N":
            return "x.Nop()"
        return "cff.EmitterStack(%s)" % ", ".join(expr(ch) for ch in n[1:])
    return [expr(n) for n in forest]


def render_flow(p):
    st = p["style"]
    name = p["name"]
    tys = {k: Ty(name, k, st["tkind"][str(k)]) for k in range(1, p["ntypes"] + 1)}
    w = W(st.get("argforms"), st.get("argseed", 0))
    if st.get("uservars"):
        # user variables named like generated identifiers, with the types generated code gives those names,
        # mentioned in the context argument (C15: they must not be captured)
        w.reserved = ("startTime", "emitter")
        ctxph = w.arg("x.CtxChecked(startTime.Equal(h.Epoch), emitter == h.UserEmitter)", form="call")
    else:
        ctxph = w.arg("%s.Ctx()" % (st.get("shadow") or ["x"])[0])   # the context argument comes first in source order
    xdecls = []
    out = []
    decls = "".join(t.decl() + "\n" for t in tys.values() if t.decl())
    body = []
    for ty in p["results"]:
        if st.get("resaddr"):
            # the Results pointer is spelled &rbN[<expression with a side effect>]: the operand of & is evaluated with the
            # other arguments, in order, before any task starts - not when the result is stored
            body.append("\tvar rb%d [2]%s\n\trb%d[0] = %s\n" % (ty, tys[ty].go(), ty, tys[ty].mk(SENTINEL)))
        else:
            body.append("\tvar r%d %s = %s\n" % (ty, tys[ty].go(), tys[ty].mk(SENTINEL)))
    for ident in st.get("shadow", []):
        # user identifiers named like the ones generated code introduces; used below in expressions
        body.append("\t%s := x\n\t_ = %s\n" % (ident, ident))
    xs = st.get("shadow", [])
    xname = xs[0] if xs else "x"   # expressions refer to the execution through a shadow-prone name
    opts = []   # (sort key, text)

    def ctxarg():
        return w.arg("%s.Ctx()" % xname)

    blocks = {}

    latemut = st.get("latemut") and p["params"] and all(tys[ty].kind in ("struct", "generic", "ext", "ustruct") for ty in p["params"])

    def opt_params():
        if latemut:
            # plain reads of local variables (no call in the expression); an argument further down the directive
            # overwrites those variables after it has been evaluated: seen only if evaluation is out of source order
            w.pending_mut = "".join("pv%d.Tok = h.LateTok; " % ty for ty in p["params"])
            return "\t\tcff.Params(%s),\n" % ", ".join("pv%d" % ty for ty in p["params"])
        return "\t\tcff.Params(%s),\n" % ", ".join(w.arg(tys[ty].mk("h.ParamTok(%d)" % ty)) for ty in p["params"])

    def opt_results():
        if st.get("resaddr"):
            return "\t\tcff.Results(%s),\n" % ", ".join("&rb%d[%s]" % (ty, w.arg("0")) for ty in p["results"])
        return "\t\tcff.Results(%s),\n" % ", ".join(w.arg("&r%d" % ty) for ty in p["results"])

    def opt_conc():
        return "\t\tcff.Concurrency(%s),\n" % w.arg("%s.Conc()" % xname)

    def opt_emit():
        shape = st.get("emitshape", "flat")
        if shape == "stack2" and p["leaves"] == 2:
            return "\t\tcff.WithEmitter(%s),\n" % w.arg("x.Stack2(1, 2)")
        if shape == "tree":
            return "".join("\t\tcff.WithEmitter(%s),\n" % w.arg(e) for e in emit_tree_exprs(st["emittree"]))
        if shape == "shared" and p["leaves"] == 4:
            # a process-wide nested stack of three leaves shared by all executions, then an emitter of this execution
            return "\t\tcff.WithEmitter(%s),\n\t\tcff.WithEmitter(%s),\n" % (w.arg("h.Team()"), w.arg("x.Emitter(4)"))
        s = ""
        for l in range(1, p["leaves"] + 1):
            s += "\t\tcff.WithEmitter(%s),\n" % w.arg("x.Emitter(%d)" % l)
        if shape == "nop":
            s += "\t\tcff.WithEmitter(%s),\n" % w.arg("x.Nop()")
        return s

    def opt_instr():
        return "\t\tcff.InstrumentFlow(%s),\n" % w.arg('"%s"' % name)

    shared_sigs, shared_done = {}, set()
    for q in p["units"]:
        if q["kind"] == "pred":
            qa = st.get("altspell", {}).get(str(q["id"]), False)
            shared_sigs[q["id"]] = (("ctx context.Context" + (", " if q["ins"] else "") if q["wantctx"] else "") +
                                    ", ".join(["a%d %s" % (i, tys[ty].go(qa)) for i, ty in enumerate(q["ins"])]),
                                    "ctx" if q["wantctx"] else "nil", "".join(", " + tys[ty].acc("a%d" % i) for i, ty in enumerate(q["ins"])))

    def opt_task(u):
        altp = st.get("altspell", {}).get(str(u["id"]), False)
        ins = ", ".join(["a%d %s" % (i, tys[ty].go(altp)) for i, ty in enumerate(u["ins"])])
        params = ("ctx context.Context" + (", " if ins else "") if u["wantctx"] else "") + ins
        rets = [tys[ty].go() for ty in u["outs"]] + (["error"] if u["haserr"] else [])
        retsig = "" if not rets else (" " + rets[0] if len(rets) == 1 else " (" + ", ".join(rets) + ")")
        toks = "".join(", " + tys[ty].acc("a%d" % i) for i, ty in enumerate(u["ins"]))
        call = "x.Call(%d, %s%s)" % (u["id"], "ctx" if u["wantctx"] else "nil", toks)
        retvals = [tys[ty].mk("r.Out(%d)" % i) for i, ty in enumerate(u["outs"])] + (["r.Err"] if u["haserr"] else [])
        if retvals:
            fbody = "r := %s\n\t\t\t\treturn %s" % (call, ", ".join(retvals))
        else:
            fbody = call
        spell = st.get("spell", {}).get(str(u["id"]), "lit")
        fn = "func(%s)%s {\n\t\t\t\t%s\n\t\t\t}" % (params, retsig, fbody)
        if spell == "paren":
            fn = "(" + fn + ")"
        if spell == "named" and u["wantctx"]:
            # a function declared at package level, referred to by its bare name
            fname = "%sN%d" % (name, u["id"])
            xdecls.append("func %s(%s)%s {\n\tx := h.From(ctx)\n\t%s\n}\n\n" % (fname, params, retsig, fbody.replace("\n\t\t\t\t", "\n\t")))
            s = "\t\tcff.Task(\n\t\t\t%s,\n" % w.arg(fname, form="raw")
        elif spell in ("rawlit", "named"):
            s = "\t\tcff.Task(\n\t\t\t%s,\n" % w.arg(fn, form="raw")
        elif spell == "method":
            # a method value: the receiver expression is what has to be evaluated once, in order, on the caller
            rt = "%sR%d" % (name, u["id"])
            xdecls.append("type %s struct{ x *h.X }\n\nfunc (rcv %s) Run(%s)%s {\n\tx := rcv.x\n\t%s\n}\n\n" %
                          (rt, rt, params, retsig, fbody.replace("\n\t\t\t\t", "\n\t")))
            s = "\t\tcff.Task(\n\t\t\t%s.Run,\n" % w.arg("%s{x: x}" % rt, form="call")
        else:
            s = "\t\tcff.Task(\n\t\t\t%s,\n" % w.arg(fn)
        if u["pred"]:
            q = unit(p, u["pred"])
            pins = ", ".join(["a%d %s" % (i, tys[ty].go(st.get("altspell", {}).get(str(q["id"]), False))) for i, ty in enumerate(q["ins"])])
            pparams = ("ctx context.Context" + (", " if pins else "") if q["wantctx"] else "") + pins
            ptoks = "".join(", " + tys[ty].acc("a%d" % i) for i, ty in enumerate(q["ins"]))
            pfn = "func(%s) bool {\n\t\t\t\treturn x.Pred(%d, %s%s)\n\t\t\t}" % (
                pparams, q["id"], "ctx" if q["wantctx"] else "nil", ptoks)
            pspell = st.get("spell", {}).get(str(q["id"]))
            sig = (pparams, "ctx" if q["wantctx"] else "nil", ptoks)
            if st.get("sharedpred") and sum(1 for v in shared_sigs.values() if v == sig) >= 2:
                # the same method for every predicate of this signature; the receiver value tells them apart
                k = sorted(set(map(str, shared_sigs.values()))).index(str(sig))
                rt = "%sSP%d" % (name, k)
                if rt not in shared_done:
                    shared_done.add(rt)
                    xdecls.append("type %s struct {\n\tx  *h.X\n\tid int\n}\n\nfunc (rcv %s) Run(%s) bool {\n\treturn rcv.x.Pred(rcv.id, %s%s)\n}\n\n" %
                                  (rt, rt, pparams, sig[1], ptoks))
                s += "\t\t\tcff.Predicate(%s.Run),\n" % w.arg("%s{x: x, id: %d}" % (rt, q["id"]), form="call")
            elif pspell in ("rawlit", "named"):
                s += "\t\t\tcff.Predicate(%s),\n" % w.arg(pfn, form="raw")
            elif pspell == "method":
                rt = "%sR%d" % (name, q["id"])
                xdecls.append("type %s struct{ x *h.X }\n\nfunc (rcv %s) Run(%s) bool {\n\tx := rcv.x\n\treturn x.Pred(%d, %s%s)\n}\n\n" %
                              (rt, rt, pparams, q["id"], "ctx" if q["wantctx"] else "nil", ptoks))
                s += "\t\t\tcff.Predicate(%s.Run),\n" % w.arg("%s{x: x}" % rt, form="call")
            else:
                s += "\t\t\tcff.Predicate(%s),\n" % w.arg(pfn)
        if u["fb"]:
            # a fallback for a pointer, slice, map or interface value may be spelled as the literal nil
            fbnil = u.get("fbnil") or [0] * len(u["outs"])
            s += "\t\t\tcff.FallbackWith(%s),\n" % ", ".join(
                (w.arg("nil", form="raw") if fbnil[i] else w.arg(tys[ty].mk("h.FBTok(%d, %d)" % (u["id"], i))))
                for i, ty in enumerate(u["outs"]))
        if u["instr"]:
            s += "\t\t\tcff.Instrument(%s),\n" % w.arg('"u%d"' % u["id"])
        if u["invoke"]:
            s += "\t\t\tcff.Invoke(true),\n"
        s += "\t\t),\n"
        return s

    # options in listing order
    order = st["order"]
    text = ""
    for o in order:
        if o == "params":
            if p["params"]:
                text += opt_params()
        elif o == "results":
            if p["results"]:
                text += opt_results()
        elif o == "conc":
            if p["hasconc"]:
                text += opt_conc()
        elif o == "emit":
            if p["leaves"]:
                text += opt_emit()
        elif o == "instr":
            if p["instr"]:
                text += opt_instr()
        else:
            text += opt_task(unit(p, o))
    pre, dtext = w.finish("\terr := cff.Flow(\n\t\t%s,\n" % ctxph + text + "\t)\n")
    if latemut:
        body.append("".join("\tpv%d := %s\n" % (ty, tys[ty].mk("h.ParamTok(%d)" % ty)) for ty in p["params"]))
    if st.get("uservars"):
        body.append("\tstartTime, emitter := h.Epoch, h.UserEmitter\n\t_, _ = startTime, emitter\n")
    src = "func %s(x *h.X) {\n" % name + "".join(body) + pre + dtext
    src += "\tx.Ret(err%s)\n}\n" % "".join(", " + tys[ty].acc(("rb%d[0]" if st.get("resaddr") else "r%d") % ty) for ty in p["results"])
    decls += "".join(xdecls)
    # the context argument is the first expression in source order
    # (numbering: it was reserved as number 1 below)
    return decls, src, w


def render_flow_numbered(p):
    decls, src, w = render_flow(p)
    return decls, src, w.k


def render_parallel(p):
    st = p["style"]
    name = p["name"]
    w = W(st.get("argforms"), st.get("argseed", 0))
    if st.get("uservars"):
        w.reserved = ("startTime", "emitter")
        ctxph = w.arg("x.CtxChecked(startTime.Equal(h.Epoch), emitter == h.UserEmitter)", form="call")
    else:
        ctxph = w.arg("x.Ctx()")
    decls = ""
    pre = ""
    text = ""
    xname = "x"
    for u in p["units"]:
        if u["kind"] in ("selem", "melem"):
            c = u["coll"]
            en = "%sE%d" % (name, c)
            decls += "type %s struct{ Tok int }\n\n" % en
            if u["kind"] == "selem":
                named = st.get("namedslice", {}).get(str(c), False)
                if named:
                    decls += "type %sS []%s\n\n" % (en, en)
                sty = "%sS" % en if named else "[]%s" % en
                if u["len"] < 0:
                    pre += "\tvar s%d %s\n" % (c, sty)
                else:
                    pre += "\ts%d := %s{%s}\n" % (c, sty, ", ".join("{Tok: h.ElemTok(%d, %d)}" % (c, i) for i in range(u["len"])))
            else:
                if u["len"] < 0:
                    pre += "\tvar m%d map[int]%s\n" % (c, en)
                else:
                    pre += "\tm%d := map[int]%s{%s}\n" % (c, en, ", ".join("%d: {Tok: h.ElemTok(%d, %d)}" % (i, c, i) for i in range(u["len"])))

    def fn_noarg(u):
        params = "ctx context.Context" if u["wantctx"] else ""
        call = "x.Call(%d, %s)" % (u["id"], "ctx" if u["wantctx"] else "nil")
        if u["haserr"]:
            return "func(%s) error {\n\t\t\t\treturn %s.Err\n\t\t\t}" % (params, call)
        return "func(%s) {\n\t\t\t\t%s\n\t\t\t}" % (params, call)

    # parallel tasks of one signature given as ONE method with different receivers (style sharedfn)
    psig = lambda u: (u["wantctx"], u["haserr"])
    pgroups = sorted({psig(u) for u in p["units"] if u["kind"] == "ptask"
                      and sum(1 for v in p["units"] if v["kind"] == "ptask" and psig(v) == psig(u)) >= 2})
    shared_done = set()

    def fnarg(u):
        """The placeholder for the function of a task or End hook, in one of its spellings."""
        nonlocal decls
        sp = st.get("spell", {}).get(str(u["id"]), "lit")
        if st.get("sharedfn") and u["kind"] == "ptask" and psig(u) in pgroups:
            rt = "%sSM%d" % (name, pgroups.index(psig(u)))
            if rt not in shared_done:
                shared_done.add(rt)
                call = "rcv.x.Call(rcv.id, %s)" % ("ctx" if u["wantctx"] else "nil")
                decls += "type %s struct {\n\tx  *h.X\n\tid int\n}\n\nfunc (rcv %s) Run(%s)%s {\n\t%s\n}\n\n" % (
                    rt, rt, "ctx context.Context" if u["wantctx"] else "", " error" if u["haserr"] else "",
                    ("return %s.Err" % call) if u["haserr"] else call)
            return w.arg("%s{x: x, id: %d}" % (rt, u["id"]), form="call") + ".Run"
        if sp == "named" and u["wantctx"]:
            fname = "%sN%d" % (name, u["id"])
            call = "h.From(ctx).Call(%d, ctx)" % u["id"]
            decls += "func %s(ctx context.Context)%s {\n\t%s\n}\n\n" % (fname, " error" if u["haserr"] else "",
                                                                       ("return %s.Err" % call) if u["haserr"] else call)
            return w.arg(fname, form="raw")
        if sp in ("rawlit", "named"):
            return w.arg(fn_noarg(u), form="raw")
        return w.arg(fn_noarg(u))

    def opt_unit(u):
        nonlocal decls
        s = ""
        if u["kind"] == "ptask":
            if st.get("tasksgroup") and u["id"] in st["tasksgroup"]:
                return None
            s = "\t\tcff.Task(\n\t\t\t%s,\n" % fnarg(u)
            if u["instr"]:
                s += "\t\t\tcff.Instrument(%s),\n" % w.arg('"u%d"' % u["id"])
            s += "\t\t),\n"
        elif u["kind"] == "selem":
            c = u["coll"]
            en = "%sE%d" % (name, c)
            ps = []
            if u["wantctx"]:
                ps.append("ctx context.Context")
            if u["withidx"]:
                ps.append("idx int")
            ps.append("v %s" % en)
            idx = "idx" if u["withidx"] else "h.IdxOf(%d, v.Tok)" % c
            toks = ("idx, " if u["withidx"] else "") + "v.Tok"
            call = "x.Elem(%d, %s, %s, %s)" % (u["id"], "ctx" if u["wantctx"] else "nil", idx, toks)
            if u["haserr"]:
                fn = "func(%s) error {\n\t\t\t\treturn %s\n\t\t\t}" % (", ".join(ps), call)
            else:
                fn = "func(%s) {\n\t\t\t\t_ = %s\n\t\t\t}" % (", ".join(ps), call)
            if st.get("spell", {}).get(str(u["id"])) == "method":
                rt = "%sR%d" % (name, u["id"])
                body = ("return %s" % call) if u["haserr"] else ("_ = %s" % call)
                decls += "type %s struct{ x *h.X }\n\nfunc (rcv %s) Run(%s)%s {\n\tx := rcv.x\n\t%s\n}\n\n" % (
                    rt, rt, ", ".join(ps), " error" if u["haserr"] else "", body)
                fnexpr = w.arg("%s{x: x}" % rt, form="call") + ".Run"
            else:
                fnexpr = w.arg(fn)
            s = "\t\tcff.Slice(\n\t\t\t%s,\n\t\t\t%s,\n" % (fnexpr, w.arg("s%d" % c))
            if u["end"]:
                s += "\t\t\tcff.SliceEnd(%s),\n" % fnarg(unit(p, u["end"]))
            s += "\t\t),\n"
        elif u["kind"] == "melem":
            c = u["coll"]
            en = "%sE%d" % (name, c)
            ps = (["ctx context.Context"] if u["wantctx"] else []) + ["k int", "v %s" % en]
            call = "x.Elem(%d, %s, k, k, v.Tok)" % (u["id"], "ctx" if u["wantctx"] else "nil")
            if u["haserr"]:
                fn = "func(%s) error {\n\t\t\t\treturn %s\n\t\t\t}" % (", ".join(ps), call)
            else:
                fn = "func(%s) {\n\t\t\t\t_ = %s\n\t\t\t}" % (", ".join(ps), call)
            s = "\t\tcff.Map(\n\t\t\t%s,\n\t\t\t%s,\n" % (w.arg(fn), w.arg("m%d" % c))
            if u["end"]:
                s += "\t\t\tcff.MapEnd(%s),\n" % fnarg(unit(p, u["end"]))
            s += "\t\t),\n"
        return s

    for o in st["order"]:
        if o == "conc":
            if p["hasconc"]:
                text += "\t\tcff.Concurrency(%s),\n" % w.arg("x.Conc()")
        elif o == "coe":
            if p["coemode"] == "true":
                text += "\t\tcff.ContinueOnError(true),\n"
            elif p["coemode"] == "false":
                text += "\t\tcff.ContinueOnError(false),\n"
            elif p["coemode"] == "expr":
                text += "\t\tcff.ContinueOnError(%s),\n" % w.arg("x.Coe()")
        elif o == "emit":
            if st.get("emitshape") == "tree":
                text += "".join("\t\tcff.WithEmitter(%s),\n" % w.arg(e) for e in emit_tree_exprs(st["emittree"]))
                continue
            if st.get("emitshape") == "shared" and p["leaves"] == 4:
                text += "\t\tcff.WithEmitter(%s),\n\t\tcff.WithEmitter(%s),\n" % (w.arg("h.Team()"), w.arg("x.Emitter(4)"))
                continue
            for l in range(1, p["leaves"] + 1):
                text += "\t\tcff.WithEmitter(%s),\n" % w.arg("x.Emitter(%d)" % l)
        elif o == "instr":
            if p["instr"]:
                text += "\t\tcff.InstrumentParallel(%s),\n" % w.arg('"%s"' % name)
        elif o == "tasks":
            grp = st.get("tasksgroup") or []
            if grp:
                text += "\t\tcff.Tasks(\n%s\t\t),\n" % "".join("\t\t\t%s,\n" % fnarg(unit(p, g)) for g in grp)
        else:
            u = unit(p, o)
            if u["kind"] in ("send", "mend"):
                continue
            s = opt_unit(u)
            if s:
                text += s
    pre2, dtext = w.finish("\terr := cff.Parallel(\n\t\t%s,\n" % ctxph + text + "\t)\n")
    if st.get("uservars"):
        pre += "\tstartTime, emitter := h.Epoch, h.UserEmitter\n\t_, _ = startTime, emitter\n"
    src = "func %s(x *h.X) {\n" % name + pre + pre2 + dtext + "\tx.Ret(err)\n}\n"
    return decls, src, w.k


def render_program(p):
    if p["dir"] == "flow":
        decls, src, nargs = render_flow_numbered(p)
    else:
        decls, src, nargs = render_parallel(p)
    p["nargsexpr"] = nargs
    if p["style"].get("genericfn"):
        # the directive sits in a generic function (type parameters of the enclosing function are in scope of the
        # generated closure); the registered entry point instantiates it
        head = "func %s(x *h.X) {\n" % p["name"]
        if src.startswith(head):
            g = p["name"][0].lower() + p["name"][1:] + "Gen"
            src = head + "\t%s[int, string](x)\n}\n\nfunc %s[Z any, Y comparable](x *h.X) {\n" % (g, g) + src[len(head):]
    return decls, src


def header(pkg, fstyle):
    """File header. fstyle: build-constraint header, import aliases (cff, context, ext, h)."""
    ca, xa, ea = fstyle.get("cff", ""), fstyle.get("context", ""), fstyle.get("ext", "")
    cons = fstyle.get("constraint", "//go:build cff")
    # the same package imported a second time under another name (legal Go; the generator has to pick one name)
    dup = fstyle.get("dup", "")
    dupimp = {"context": "\tdupctx \"context\"\n", "cff": "\tdupcff \"go.uber.org/cff\"\n", "": ""}[dup]
    dupuse = {"context": "var _ = dupctx.Background\n", "cff": "var _ = dupcff.NopEmitter\n", "": ""}[dup]
    # ext = "v2:<name>": the external package is imported WITHOUT a local name from a path whose last element
    # is not the package name (vgen/<name>/v2 declares package <name>), <name> being one the generator needs itself
    extpath, extname, extalias = "vgen/ext", ea or "ext", (ea + " ") if ea else ""
    if ea.startswith("v2:"):
        extname = ea[3:]
        extpath, extalias = "vgen/%s/v2" % extname, ""
    if ea == "libctx":
        # a project-local package whose import path ENDS in the path of a package the file also imports
        # (vgen/lib/context declares package context), imported under another name
        extpath = "vgen/lib/context"
    if fstyle.get("linedir"):
        # a //line directive ahead of the package clause (machine-written sources carry them): positions reported for
        # this file name another file, the file itself does not move
        cons += "\n\n//line templates/%s_tmpl.go:100" % pkg
    return ("%s\n\npackage %s\n\nimport (\n\t%s\"context\"\n%s\n\t%s\"go.uber.org/cff\"\n\t%s\"%s\"\n\n\t\"verif/harness/pkg/h\"\n)\n\n"
            "var _ = %s.Background\nvar _ %s.E1\n%s\n" % (cons, pkg, (xa + " ") if xa else "", dupimp, (ca + " ") if ca else "",
                                                         extalias, extpath, xa or "context", extname, dupuse))


def respell(text, fstyle):
    """Applies the file's import aliases to rendered program text."""
    for name in ("cff", "context", "ext"):
        a = fstyle.get(name, "")
        if a.startswith("v2:"):
            a = a[3:]
        if a:
            text = re.sub(r"\b%s\." % name, a + ".", text)
    return text


LONGLINE = "var {n}Blob = \"" + "x" * 70000 + "\" // one line of more than 64 KiB\n\n"
SURROUND = [
    "// {n}Const is surrounding code that generation must not touch.\nconst {n}Const = {k} // trailing comment\n\n",
    "var {n}Var = []string{{\"a\", \"b\"}} /* block comment */\n\n",
    "type {n}Iface interface {{\n\tM(int) string // method comment\n}}\n\n",
    "func {n}Helper(xs ...int) (s int) {{\n\tfor _, x := range xs {{\n\t\tif x%2 == 0 {{\n\t\t\tcontinue\n\t\t}}\n\t\ts += x\n\t}}\n\treturn\n}}\n\n",
]


def gen_fstyle(rng):
    return dict(linedir=rng.random() < 0.15, cff=rng.choice(["", "", "c", "cff2"]), context=rng.choice(["", "", "stdctx"]),
                ext=rng.choice(["", "", "time", "debug", "multierr", "v2:debug", "v2:time", "libctx"]), dup=rng.choice(["", "", "context"]),
                # (the module is on go 1.22: a go1.2x term pins the file - and the generated file, which inherits the
                # constraint - to a language version with per-loop loop variables)
                constraint=rng.choice(["//go:build cff", "//go:build cff", "//go:build cff\n// +build cff",
                                       "// +build cff", "//go:build cff && !never",
                                       "//go:build cff && go1.21", "//go:build go1.20 && cff", "//go:build cff && go1.21\n// +build cff,go1.21",
                                       "//go:build cff && go1.21 && !never", "// +build cff,go1.20"]))


def write_module(root, packages, fancy=True):
    """packages: {pkgname: [prog,...]}. Writes a Go module 'vgen' that the real cff can process."""
    os.makedirs(root, exist_ok=True)
    with open(os.path.join(root, "go.mod"), "w") as f:
        f.write("module vgen\n\ngo 1.22\n\nrequire (\n\tgo.uber.org/cff v0.1.0\n\tgo.uber.org/multierr v1.11.0\n"
                "\tverif/harness v0.0.0\n)\n\nreplace go.uber.org/cff => %s\n\nreplace verif/harness => %s\n"
                % (REPO, HARNESS_OVERRIDE or os.path.join(os.path.dirname(os.path.dirname(os.path.abspath(__file__))), "harness")))
    import shutil
    shutil.copy(REPO + "/internal/tests/go.sum", os.path.join(root, "go.sum"))
    os.makedirs(os.path.join(root, "ext"), exist_ok=True)
    with open(os.path.join(root, "ext", "ext.go"), "w") as f:
        f.write("// Package ext holds value types declared outside the package that uses cff.\npackage ext\n\n" +
                "".join("// E%d is a token carrier.\ntype E%d struct{ Tok int }\n\n" % (i, i) for i in range(1, 13)))
    os.makedirs(os.path.join(root, "lib", "context"), exist_ok=True)
    with open(os.path.join(root, "lib", "context", "ext.go"), "w") as f:
        f.write("// Package context is a local package whose import path ends in the path of a standard package.\npackage context\n\n" +
                "".join("// E%d is a token carrier.\ntype E%d struct{ Tok int }\n\n" % (i, i) for i in range(1, 13)))
    for nm in ("debug", "time"):
        os.makedirs(os.path.join(root, nm, "v2"), exist_ok=True)
        with open(os.path.join(root, nm, "v2", "ext.go"), "w") as f:
            f.write("// Package %s is imported from a path whose last element is not its name.\npackage %s\n\n" % (nm, nm) +
                    "".join("// E%d is a token carrier.\ntype E%d struct{ Tok int }\n\n" % (i, i) for i in range(1, 13)))
    allprogs = []
    for pkg, progs in packages.items():
        d = os.path.join(root, pkg)
        os.makedirs(d, exist_ok=True)
        # several source files per package, a few programs each (what comes first in a file matters
        # to the generator: serial numbers restart per file)
        rng = random.Random(len(progs) * 7919 + len(pkg))
        files, i = [], 0
        while i < len(progs):
            n = rng.choice([1, 1, 2, 3, 4])
            files.append(progs[i:i + n])
            i += n
        for fi, chunk in enumerate(files):
            decls, srcs = "", ""
            fstyle = gen_fstyle(rng) if fancy else {}
            for p in chunk:
                p["file"] = "%s%d.go" % (pkg, fi)      # which source file holds the program (not part of h.Prog)
                dd, ss = render_program(p)
                decls += dd
                if fancy:
                    srcs += rng.choice(SURROUND).format(n=p["name"], k=rng.randint(1, 99))
                    if rng.random() < 0.04:
                        srcs += LONGLINE.format(n=p["name"])
                srcs += ss + "\n"
                q = {k: v for k, v in p.items() if k not in ("style", "file")}
                allprogs.append(q)
            with open(os.path.join(d, "%s%d.go" % (pkg, fi)), "w") as f:
                f.write(header(pkg, fstyle) + respell(decls + srcs, fstyle))
        with open(os.path.join(d, "reg.go"), "w") as f:
            f.write("package %s\n\nimport \"verif/harness/pkg/h\"\n\n// Registry lists the rendered functions.\n"
                    "var Registry = map[string]func(*h.X){\n%s}\n" % (pkg, "".join('\t"%s": %s,\n' % (p["name"], p["name"]) for p in progs)))
    with open(os.path.join(root, "main.go"), "w") as f:
        imps = "".join('\t"vgen/%s"\n' % pkg for pkg in packages)
        regs = "".join("\tfor k, v := range %s.Registry {\n\t\treg[k] = v\n\t}\n" % pkg for pkg in packages)
        f.write("package main\n\nimport (\n%s\n\t\"verif/harness/pkg/h\"\n)\n\nfunc main() {\n\treg := map[string]func(*h.X){}\n%s\th.Main(reg)\n}\n" % (imps, regs))
    with open(os.path.join(root, "programs.json"), "w") as f:
        json.dump(allprogs, f)
    return allprogs


def write_registry(root, pkg, progs):
    with open(os.path.join(root, pkg, "reg.go"), "w") as f:
        f.write("package %s\n\nimport \"verif/harness/pkg/h\"\n\n// Registry lists the rendered functions.\n"
                "var Registry = map[string]func(*h.X){\n%s}\n" % (pkg, "".join('\t"%s": %s,\n' % (p["name"], p["name"]) for p in progs)))


# ------------------------------------------------------------------ seeded program generators
def pick_kinds(rng, ntypes, params):
    """How each value type is spelled.  `any` and `error` are single Go types: at most one value type of a
    flow may be spelled that way (a type may have only one provider), and error only for a Params value."""
    out, used = {}, set()
    for k in range(1, ntypes + 1):
        kind = rng.choice(PARAM_KINDS if k in params else KINDS)
        if kind in ("any", "errv", "bytes", "ustruct"):
            if kind in used:
                kind = "struct"
            used.add(kind)
        out[str(k)] = kind
    return out


def gen_flow(rng, name, max_tasks=4, features=None, plain=False):
    """plain: only Params, Results, Concurrency and plain Tasks (the subset modifier mode supports, C20)."""
    features = features or {}
    ntasks = rng.randint(1, max_tasks)
    units, params, results = [], [], []
    ntypes = 0
    avail = []           # provided types so far
    consumed = set()
    nparams = rng.choice([0, 1, 1, 2])
    for _ in range(nparams):
        ntypes += 1
        params.append(ntypes)
        avail.append(ntypes)
    for t in range(1, ntasks + 1):
        nin = min(len(avail), rng.choice([0, 1, 1, 2, 2, 3]))
        ins = rng.sample(avail, nin)
        nout = rng.choice([0, 1, 1, 1, 2]) if not plain else rng.choice([1, 1, 2])
        outs = []
        for _ in range(nout):
            ntypes += 1
            outs.append(ntypes)
        haserr = rng.random() < 0.6
        u = dict(id=t, kind="task", ins=ins, outs=outs, haserr=haserr, wantctx=rng.random() < 0.4, pred=0, task=0,
                 fb=haserr and rng.random() < 0.35 and not plain, invoke=not outs, instr=False, coll=0, len=0, withidx=False, end=0, nargs=0)
        consumed.update(ins)
        if not plain and (avail and rng.random() < 0.35 or (not avail and rng.random() < 0.1)):
            pins = rng.sample(avail, min(len(avail), rng.choice([0, 1, 1, 2])))
            q = dict(id=100 + t, kind="pred", ins=pins, outs=[], haserr=False, wantctx=rng.random() < 0.3, pred=0, task=t,
                     fb=False, invoke=False, instr=False, coll=0, len=0, withidx=False, end=0, nargs=0)
            consumed.update(pins)
            u["pred"] = 100 + t
            units.append(u)
            units.append(q)
        else:
            units.append(u)
        avail += outs
    # several predicates given as ONE method with different receivers: they need the same signature
    preds = [u for u in units if u["kind"] == "pred"]
    sharedpred = len(preds) >= 2 and rng.random() < 0.5
    if sharedpred:
        wc = rng.random() < 0.3
        for q in preds:
            q["ins"], q["wantctx"] = [], wc
        consumed = set()
        for u in units:
            consumed.update(u["ins"])
    # unconsumed provided types: params must be consumed by someone, outputs go to Results
    for ty in list(avail):
        if ty in consumed:
            if ty not in params and rng.random() < 0.3:
                results.append(ty)
            continue
        if ty in params:
            # let the last task consume it (append as extra input), keeps the graph acyclic only if
            # that task comes after -- params are available from the start, so any task will do
            tu = rng.choice([u for u in units if u["kind"] == "task"])
            tu["ins"].append(ty)
        else:
            results.append(ty)
    rng.shuffle(results)
    leaves = rng.choice([0, 0, 1, 2]) if not plain else 0
    instr = leaves > 0 and rng.random() < 0.7
    for u in units:
        if u["kind"] == "task" and leaves > 0 and rng.random() < 0.6:
            u["instr"] = True
    order = ["params", "results", "conc", "emit", "instr"] + [u["id"] for u in units if u["kind"] == "task"]
    rng.shuffle(order)
    emitshape = rng.choice(["flat", "flat", "stack2", "nop"])
    if leaves > 0 and rng.random() < 0.25:
        leaves, emitshape = 4, "shared"
    emittree = None
    if leaves > 0 and emitshape != "shared" and rng.random() < 0.4:
        emittree, leaves = gen_emit_tree(rng)
        emitshape = "tree"
    p = dict(name=name, dir="flow", ntypes=ntypes, params=params, results=results, units=units, nargsexpr=0,
             leaves=leaves, instr=instr, hasconc=rng.random() < 0.7, coemode="none", autoins=False, mode="base",
             style=dict(tkind=pick_kinds(rng, ntypes, params), order=order,
                        spell={str(u["id"]): rng.choice(["lit", "lit", "paren", "method", "rawlit", "rawlit", "named"]) for u in units},
                        sharedpred=sharedpred,
                        argforms=rng.choice([["call"], ["call", "call", "ident"], ["call", "ident"]]), argseed=rng.randint(0, 10**6),
                        altspell={str(u["id"]): rng.random() < 0.5 for u in units}, uservars=rng.random() < 0.3,
                        latemut=rng.random() < 0.35,
                        emitshape=emitshape, emittree=emittree))
    p["style"]["genericfn"] = rng.random() < 0.2
    p["style"]["resaddr"] = rng.random() < 0.35
    for u in units:
        if u["kind"] == "task" and u["fb"]:
            u["fbnil"] = [1 if p["style"]["tkind"][str(ty)] in ("ptr", "slice", "map", "any", "bytes") and rng.random() < 0.5 else 0
                          for ty in u["outs"]]
    return p


def gen_parallel(rng, name):
    units = []
    uid = 0
    ntask = rng.choice([0, 1, 2, 3])
    for _ in range(ntask):
        uid += 1
        units.append(dict(id=uid, kind="ptask", ins=[], outs=[], haserr=rng.random() < 0.6, wantctx=rng.random() < 0.4,
                          pred=0, task=0, fb=False, invoke=False, instr=False, coll=0, len=0, withidx=False, end=0, nargs=0))
    coemode = rng.choice(["none", "none", "true", "false", "expr"])
    ncoll = rng.choice([0, 1, 1, 2]) if ntask else rng.choice([1, 1, 2])
    style = dict(order=[], namedslice={}, tasksgroup=[], argforms=rng.choice([["call"], ["call", "call", "ident"], ["call", "ident"]]),
                 argseed=rng.randint(0, 10**6), spell={}, uservars=rng.random() < 0.3)
    for c in range(1, ncoll + 1):
        ismap = rng.random() < 0.4
        ln = rng.choice([-1, 0, 1, 2, 3, 3])
        hasend = coemode == "none" and rng.random() < 0.5
        eid = 200 + c if not ismap else 400 + c
        endid = (300 + c if not ismap else 500 + c) if hasend else 0
        units.append(dict(id=eid, kind="melem" if ismap else "selem", ins=[], outs=[], haserr=rng.random() < 0.5,
                          wantctx=rng.random() < 0.4, pred=0, task=0, fb=False, invoke=False, instr=False, coll=c,
                          len=ln, withidx=(not ismap) and rng.random() < 0.6, end=endid, nargs=0))
        if hasend:
            units.append(dict(id=endid, kind="mend" if ismap else "send", ins=[], outs=[], haserr=rng.random() < 0.5,
                              wantctx=rng.random() < 0.4, pred=0, task=0, fb=False, invoke=False, instr=False, coll=c,
                              len=0, withidx=False, end=0, nargs=0))
        if not ismap:
            style["namedslice"][str(c)] = rng.random() < 0.3
            style["spell"][str(eid)] = rng.choice(["lit", "lit", "method"])
    leaves = rng.choice([0, 0, 1, 2])
    if leaves > 0 and rng.random() < 0.25:
        leaves, style["emitshape"] = 4, "shared"
    elif leaves > 0 and rng.random() < 0.4:
        style["emittree"], leaves = gen_emit_tree(rng)
        style["emitshape"] = "tree"
    for u in units:
        if u["kind"] == "ptask" and leaves > 0 and rng.random() < 0.6:
            u["instr"] = True
    for u in units:
        if u["kind"] in ("ptask", "send", "mend"):
            style["spell"][str(u["id"])] = rng.choice(["lit", "lit", "rawlit", "rawlit", "named"])
    style["sharedfn"] = rng.random() < 0.4
    style["genericfn"] = rng.random() < 0.2
    ptasks = [u["id"] for u in units if u["kind"] == "ptask"]
    if len(ptasks) >= 2 and rng.random() < 0.4:
        # cff.Tasks(f, g) cannot carry Instrument options
        style["tasksgroup"] = ptasks[-2:]
        for u in units:
            if u["id"] in style["tasksgroup"]:
                u["instr"] = False
    order = ["conc", "coe", "emit", "instr", "tasks"] + [u["id"] for u in units]
    rng.shuffle(order)
    style["order"] = order
    return dict(name=name, dir="parallel", ntypes=0, params=[], results=[], units=units, nargsexpr=0, leaves=leaves,
                instr=leaves > 0 and rng.random() < 0.7, hasconc=rng.random() < 0.7, coemode=coemode, autoins=False,
                mode="base", style=style)


def gen_parallel_big(rng, name, ismap=False):
    """One large collection (more elements than fit in a byte-sized counter) with an End hook: the End
    job depends on every element job (C10: only after every element call has returned)."""
    n = 256 + rng.randint(0, 90)
    eid, endid = (401, 501) if ismap else (201, 301)
    units = [dict(id=eid, kind="melem" if ismap else "selem", ins=[], outs=[], haserr=True, wantctx=rng.random() < 0.5, pred=0, task=0,
                  fb=False, invoke=False, instr=False, coll=1, len=n, withidx=(not ismap) and rng.random() < 0.5, end=endid, nargs=0),
             dict(id=endid, kind="mend" if ismap else "send", ins=[], outs=[], haserr=rng.random() < 0.5, wantctx=False, pred=0, task=0,
                  fb=False, invoke=False, instr=False, coll=1, len=0, withidx=False, end=0, nargs=0)]
    return dict(name=name, dir="parallel", ntypes=0, params=[], results=[], units=units, nargsexpr=0, leaves=0, instr=False,
                hasconc=True, coemode="none", autoins=False, mode="base", big=True,
                style=dict(order=["conc", "coe", "emit", "instr", "tasks", eid, endid], namedslice={"1": False}, tasksgroup=[]))


def big_scenarios(rng, p):
    """All ok with slow elements (the End job is enqueued while most elements are unfinished), and one with
    a failing element late in the collection (the End hook must not run)."""
    u = p["units"][0]
    out = []
    for conc, us in ((rng.choice([2, 4, 8]), 40), (16, 150)):
        sc = gen_scenario(rng, p, "ok")
        sc["conc"] = conc
        sc["delayus"] = {"%d:%d" % (u["id"], i): us for i in range(u["len"])}
        out.append(sc)
    # one worker, held inside the first element while the context is cancelled: the directive must still
    # return promptly, however many elements are waiting to be enqueued or run (C09)
    sc = gen_scenario(rng, p, "ok")
    sc["conc"] = 1
    sc["delayus"] = {}
    sc["hold"] = "%d:%d" % (u["id"], 0)
    out.append(sc)
    sc = gen_scenario(rng, p, "ok")
    sc["conc"] = 4
    sc["out"] = {"%d:%d" % (u["id"], u["len"] - 3): "err"}
    sc["delayus"] = {"%d:%d" % (u["id"], i): 20 for i in range(u["len"])}
    out.append(sc)
    return out


# ------------------------------------------------------------------ scenarios
def insts(p):
    out = []
    for u in p["units"]:
        if u["kind"] in ("selem", "melem"):
            out += [(u, i) for i in range(max(u["len"], 0))]
        else:
            out.append((u, -1))
    return out


def gen_scenario(rng, p, mode="mixed"):
    out, pk, delay = {}, {}, {}
    pfail = {"ok": 0.0, "mixed": rng.choice([0, 0.15, 0.35]), "fail": 0.5}[mode]
    ppanic = {"ok": 0.0, "mixed": rng.choice([0, 0.1, 0.25]), "fail": 0.3}[mode]
    rtused = False
    dmode = rng.choice(["none", "yield", "short", "mixed"])
    for u, i in insts(p):
        k = str(u["id"]) if i < 0 else "%d:%d" % (u["id"], i)
        r = rng.random()
        if u["kind"] == "pred":
            if r < ppanic:
                out[k] = "panic"
            elif r < ppanic + (0.35 if mode != "ok" else 0.3):
                out[k] = "false"
        else:
            if r < ppanic:
                out[k] = "panic"
            elif r < ppanic + pfail and u["haserr"]:
                out[k] = "err"
        if out.get(k) == "panic":
            kind = rng.choice(["str", "err", "struct", "rt", "slice", "ustruct"])
            if kind == "rt":
                if rtused:
                    kind = "str"
                rtused = True
            pk[k] = kind
        if dmode == "yield":
            delay[k] = -1
        elif dmode == "short":
            delay[k] = rng.randint(0, 80)
        elif dmode == "mixed":
            delay[k] = rng.choice([0, 0, 20, 300, 1200])
    sc = dict(out=out, panick=pk, delayus=delay, conc=rng.choice([1, 1, 2, 2, 3, 8]), coe=rng.random() < 0.5,
              cancel="none", cancelu="", cancelus=0, hold="", barrier=False, effconc=0, effcoe=False)
    if mode != "ok":
        c = rng.random()
        ii = insts(p)
        if c < 0.04:
            sc["cancel"] = "before"
        elif c < 0.14 and ii:
            u, i = rng.choice(ii)
            sc["cancel"], sc["cancelu"] = "unit", (str(u["id"]) if i < 0 else "%d:%d" % (u["id"], i))
        elif c < 0.20:
            sc["cancel"], sc["cancelus"] = "timer", rng.randint(0, 500)
        elif c < 0.25:
            sc["cancel"], sc["cancelus"] = "deadline", rng.randint(1, 500)
    return sc


def hold_scenarios(rng, p):
    """Promptness (C09): a function that certainly starts (no inputs from other tasks, no predicate) is held by
    the runner; the context is cancelled once it runs; everything else is quick."""
    cands = []
    for u, i in insts(p):
        if u["kind"] in ("ptask", "selem", "melem") or (u["kind"] == "task" and not u["pred"] and all(t in p["params"] for t in u["ins"])):
            cands.append(str(u["id"]) if i < 0 else "%d:%d" % (u["id"], i))
    if not cands:
        return []
    sc = gen_scenario(rng, p, "ok")
    sc["hold"] = rng.choice(cands)
    sc["delayus"] = {}
    sc["conc"] = max(sc["conc"], 2)
    return [sc]


def barrier_scenarios(rng, p):
    """Capacity (C03): see h.Scen.Barrier."""
    sc = gen_scenario(rng, p, "ok")
    sc["barrier"] = True
    sc["delayus"] = {}
    sc["conc"] = rng.choice([2, 3, 4, 8])
    return [sc]


def late_fault_scenarios(rng, p):
    """A function that is already running when the context is cancelled, and panics (or fails) afterwards:
    the panic must still be contained (C04), nothing may be lost or reported twice (C18)."""
    out = []
    cands = [(u, i) for u, i in insts(p) if u["kind"] in ("task", "ptask", "selem", "melem") and not u["pred"]]
    if not cands:
        return out
    u, i = rng.choice(cands)
    k = str(u["id"]) if i < 0 else "%d:%d" % (u["id"], i)
    sc = gen_scenario(rng, p, "ok")
    sc["out"] = {k: "panic"}
    sc["panick"] = {k: rng.choice(["str", "err", "rt"])}
    sc["delayus"] = {k: 600}
    sc["cancel"], sc["cancelus"] = "timer", 60
    sc["conc"] = max(sc["conc"], 2)
    out.append(sc)
    return out


def fault_scenarios(rng, p):
    """Single-fault enumeration: for every user function instance one scenario in which only it
    panics, and (if it can return an error) one in which only it fails; for predicates also one
    in which only it returns false."""
    out = []
    kinds = ["str", "err", "struct", "rt", "slice", "ustruct"]
    for u, i in insts(p):
        k = str(u["id"]) if i < 0 else "%d:%d" % (u["id"], i)
        faults = ["panic"] + (["err"] if u["haserr"] else []) + (["false"] if u["kind"] == "pred" else [])
        for f in faults:
            sc = gen_scenario(rng, p, "ok")
            sc["out"] = {k: f}
            sc["panick"] = {k: rng.choice(kinds)} if f == "panic" else {}
            out.append(sc)
    return out
