#!/usr/bin/env python3
"""Writes seeded/<id>/meta.json (what the change is, what it needs to manifest, how it was confirmed) for
every seeded change, keeping the "detected" results that tools/matrix recorded, and regenerates
seeded/MATRIX.md."""
import json, os
V = os.path.dirname(os.path.dirname(os.path.abspath(__file__)))
RAN = ("tools/confirm_mutant in a scratch worktree of /repo: patch applies to a clean tree; go build ./... and go vet ./scheduler clean; "
       "go test -vet=off -count=1 ./... passes in the root module and in internal/tests (the pre-existing predicate/TestPanicRecovered failure excepted); "
       "demo/RUN.sh exits non-zero with the patch and 0 without it")
D = {
 "C01-a": ("scheduler loop, enqueue arm: `job.invalid = dep.err != nil` overwrites instead of accumulating", "ContinueOnError; a job with >= 2 dependencies enqueued after a failed dependency was processed, with a succeeded dependency listed after the failed one"),
 "C01-b": ("scheduler loop: a job skipped as invalid finishes with done=true, err=nil", "ContinueOnError; chain A! <- B <- C with C enqueued after B's skip result was consumed"),
 "C02-a": ("compile.go: DependsOn de-duplicated by a serial number shared between tasks and predicates", "a task gated by the k-th predicate that also consumes the task with serial k; predicate slower than the data provider; concurrency >= 2"),
 "C02-b": ("compile.go: 'wait on each job only once' drops the predicate job when serials collide", "as C02-a (first flow of a file, provider listed second); concurrency >= 2"),
 "C03-a": ("worker: no replacement after Goexit when the job's context has ended", "ContinueOnError; Goexit in a job whose own context is cancelled; more runnable work afterwards"),
 "C03-b": ("replacement of dead workers moved into the loop keyed on a shared sentinel error + dispatch gate dropped", "ContinueOnError; a task returns the error of a nested scheduler in which a job exited; more runnable work"),
 "C04-a": ("flow/task.go.tmpl: predicate guard hoisted above the deferred recover block", "a panic inside a cff.Predicate function"),
 "C04-b": ("parallel/{slice,map}.go.tmpl: End-hook closures assign the PanicError to a local instead of the named result", "a panic inside a SliceEnd/MapEnd function"),
 "C05-a": ("scheduler loop: skipped (invalid) jobs no longer notify their consumers", "ContinueOnError; chain of length >= 3 with the first job failing; last job enqueued before the skip is processed"),
 "C05-b": ("scheduler loop: an invalid job is put on the ready list at enqueue although dependencies are outstanding", "ContinueOnError; job with >= 2 dependencies enqueued after one failed and while another runs"),
 "C06-a": ("scheduler loop: ungated fast-path dispatch in the enqueue arm", "fail-fast; >= 2 workers; results unread in donec while dependency-free jobs keep arriving; failure"),
 "C06-b": ("worker: gives up the result hand-off when the job's context is done", "context done while a worker posts a result"),
 "C07-a": ("worker: a job skipped because its own context is cancelled is reported as success", "a job enqueued with a context other than Wait's, cancelled before a worker picks the job up"),
 "C07-b": ("flow/task.go.tmpl: predicate guard hoisted above the recover block (flow returns nil, Results overwritten)", "a panic inside a predicate"),
 "C08-a": ("scheduler loop: invalidation folded into the notify loop (only the dependency finishing last propagates a failure)", "ContinueOnError; join job with >= 2 unfinished dependencies; the failing one finishes first"),
 "C08-b": ("scheduler loop: an error already contained in s.err is not appended again", "two tasks returning the same error value"),
 "C09-a": ("worker: only context.Canceled stops a job, a passed deadline does not", "context with a deadline that expires while jobs are queued"),
 "C09-b": ("Wait: under ContinueOnError the ctx.Done arm waits for finishedc", "ContinueOnError; context ends while a task that does not finish by itself is running"),
 "C10-a": ("ScheduledJob.remaining narrowed to uint8", "Slice/Map with an End hook and >= 256 elements still unfinished when the End job is enqueued"),
 "C10-b": ("parallel/{slice,map}.go.tmpl: End job only enqueued if the collection is non-empty", "empty or nil collection with an End hook"),
 "C11-a": ("flow/task.go.tmpl: predicate guard above the recover block (fallback values lost)", "predicate panics, task has FallbackWith"),
 "C11-b": ("compile.go: DependsOn 'dedupe' drops pred1.job when task1 is also a dependency", "gated task runnable before its predicate has run; predicate true"),
 "C12-a": ("Wait reads s.err on the ctx.Done path", "Wait leaves through ctx.Done while a job fails; race detector"),
 "C12-b": ("Enqueue reads done/err of the dependencies of jobs with > 8 dependencies", "job with >= 9 dependencies one of which is already processed; race detector"),
 "C13-a": ("exprPrinter prints bare identifiers un-hoisted", "an argument that is a bare identifier named like a generated local (tasks, emitter, ...)"),
 "C13-b": ("one constructor for predicate and invoke sentinels (identical types)", "a flow with both a Predicate and an Invoke(true) task; predicated task listed first"),
 "C14-a": ("validateFuncs computes unused Params from the receivers index", "a type given by Params and produced by a task"),
 "C14-b": ("cycle search compares only with the root of the walk, memo set before the recursion", "cycle reached first from an off-cycle task >= 2 hops away that is listed before the cycle"),
 "C15-a": ("prologue ordered by generated variable name", "arguments straddling a digit-count boundary of line or column numbers (9->10, 99->100)"),
 "C15-b": ("method values are not hoisted", "a function position given as a method value with a non-trivial receiver expression"),
 "C16-a": ("invertCffConstraint reports 'unchanged' for the !cff special case", "a constraint in which cff occurs only negated"),
 "C16-b": ("constraint rewriting stops at the package doc comment", "a //go:build line without a blank line before the package clause / doc comment"),
 "C17-a": ("one compiler per package: taskSerial keeps counting across files", "package with >= 2 cff files, the later one generated alone (-file)"),
 "C17-b": ("import bookkeeping re-keyed by local name; name chosen by map iteration", "a file importing context / cff / time / runtime/debug under two names"),
 "C18-a": ("EmitterStack builds on the backing array of a leading nested stack", "a nested stack with spare capacity shared as first argument by two stacks alive at once"),
 "C18-b": ("flow/task.go.tmpl: TaskSuccess emitted after the FallbackWith branch too", "instrumented task with FallbackWith returning an error"),
 "C19-a": ("loop takes the head of ready into a local before a worker accepts it", "a state report in the window between pick and hand-over"),
 "C19-b": ("state reports published from a detached goroutine", "a report still in flight when the loop exits (fast ticker / slow Emit)"),
 "C01-c": ("compile.go: DependsOn de-duplicated by serial (third independent rediscovery of the task/predicate serial overlap)", "task gated by the k-th predicate that also consumes the task with file serial k; predicate slower than the provider chain"),
 "C02-c": ("compile.go: providers looked up by types.TypeString instead of type identity", "provider and consumer spell an identical type differently ([]byte / []uint8, any / interface{}); provider listed first; concurrency >= 2"),
 "C04-c": ("flow/task.go.tmpl: recovered value compared with the parked predicate panic (interface comparison)", "predicate without FallbackWith panics with a value of uncomparable type"),
 "C05-c": ("loop waits for all workers before closing finishedc + donec capped at 64", "more than 64 workers; fail-fast; one failure while > 64 other jobs are in flight"),
 "C07-c": ("parallel templates: shared End-hook closure with an unnamed result; recover assigns the outer err", "SliceEnd/MapEnd function panics after all elements succeeded"),
 "C08-c": ("scheduler loop: job.err only recorded for non-sentinel errors (skipped job looks successful)", "ContinueOnError; chain A! <- B <- C with C enqueued after B's skip was processed"),
 "C10-c": ("parallel/slice.go.tmpl: the index-less call helper lost the `err =` prefix", "index-less slice function returning an error; an element fails"),
 "C12-c": ("templates: taskN.ran becomes a plain bool", "directive returns early while a task is still running; race detector; nothing else ordering the accesses"),
 "C18-c": ("flow/parallel templates: early return when the context is already done, before FlowError", "instrumented directive called with an already cancelled context"),
 "C19-c": ("scheduler loop: invalidated jobs finished in place without waiting--", "ContinueOnError; failing job with waiting dependents; emitter"),
 "C03-c": ("Config.NumJobs clamps Concurrency; the template's NumJobs() does not count Map entries", "cff.Parallel with Task(s) and a Map but no Slice, fewer plain tasks than the limit: the map entries run one at a time"),
 "C06-c": ("worker: exitCleanly flag replaced by currentJob != nil; the context-skip path leaves currentJob set", "fail-fast; jobs whose context is already done handed to several workers before the first failure is read"),
 "C09-c": ("loop stops reading enqueuec while the ready list holds >= 32*Concurrency jobs", "directive with more than 33*Concurrency dependency-free jobs; context done while every worker is busy with a task that does not return"),
 "C11-c": ("flow/task.go.tmpl: `with .FallbackWithResults` instead of `if .FallbackWith` in the recover block", "no-result task with cff.FallbackWith() (no values) that panics, or whose predicate panics"),
 "C13-c": ("cycle.go walks inputs() instead of Dependencies (the predicate edge is missing)", "a dependency cycle through a predicate: toposort overflows the stack"),
 "C14-c": ("compile.go: the per-call duplicate set of cff.Params keyed by types.Type pointers", "the same unnamed composite type ([]T, *T, map) given twice to cff.Params by separate type expressions"),
 "C15-c": ("startTime := time.Now() emitted before the hoisted-argument prologue", "an identifier startTime (time.Time) of the enclosing function used in an argument expression"),
 "C16-c": ("genFilename splits the base name at the first dot", "a source file with an extra dot in its name (stages.v2.go), default output name"),
 "C17-c": ("compile.go: duplicate providers collected in a map; dependency slice rebuilt by map iteration", "a task consuming two values of one provider and a value of another"),
 "C20-c": ("modifier: root arguments keyed by modifier id; the template ranges over the map (sorted keys)", "modifier mode; options on lines / columns with different digit counts"),
 "C02-d": ("compile.go: DependsOn skips predicate sentinels by `typ.(*predicateOutput)`, an alias of *types.Struct", "a flow value of an unnamed struct type consumed by another task; consumer starts before the provider returns"),
 "C04-d": ("flow and parallel task templates: the deferred recover returns early when ctx.Err() != nil", "a task panics after the directive's context was cancelled while it was running"),
 "C10-d": ("parallel/map.go.tmpl: the per-entry closure loses its named result; recover assigns the outer err", "a Map element function panics; a MapEnd hook is attached"),
 "C13-d": ("gen.go: vN / pN numbering keyed by types.TypeString", "a value crosses a task boundary with an identical type spelled differently (any / interface{}, byte / uint8)"),
 "C14-d": ("compile_parallel.go: passableAs also accepts types whose underlying types are assignable", "Slice/Map element and parameter of different named types with the same underlying type"),
 "C15-d": ("prologue template: one tuple assignment instead of one statement per hoisted argument", "an argument that is a plain read of a variable which a later argument's call modifies"),
 "C16-d": ("cmd/cff: -file=NAME without OUTPUT resolved relative to the working directory", "-file=NAME with cff started outside the package directory"),
 "C17-d": ("gen.go: magic-token comments removed by a bufio.Scanner line walk (64 KiB limit, error unchecked)", "source-map mode; a source line of 64 KiB or more before a directive"),
 "C18-d": ("templates: `ran` becomes a compare-and-swap claim between the TaskSkipped sweep and TaskDone", "directive returns while an instrumented task is still running"),
 "C20-d": ("modifier flow_task template: dependency de-duplication with $prev := 0 drops task0.job", "modifier mode; consumer whose first provider is the file's first task; >= 2 workers"),
 "C20-a": ("modifier flow_task template: recover assigns a local err", "modifier mode; a task panics"),
 "C20-b": ("modifier mode guesses unnamed import names from the path", "modifier mode; unnamed import of .../debug/v2 (package debug) colliding with a generated import"),
 "C01-d": ("compile.go scheduleFlowAndToposort: providers resolved through a map keyed by types.TypeString", "a type produced under one spelling and consumed under another ([]byte / []uint8, any / interface{}); provider listed first; >= 2 workers"),
 "C03-d": ("worker pool started as a chain (`more` parameter); the replacement of a dead worker inherits `more` and restarts the chain", "ContinueOnError; several jobs ending in Goexit on a worker other than the chain tail; N >= 2"),
 "C05-d": ("loop exit drain made non-blocking with a `stopped` flag checked by Enqueue; the flag is set after the last poll", "fail-fast; a failure while the caller has >= 2 jobs to enqueue, both Enqueues landing between the last poll and stopped.Store"),
 "C06-d": ("donec buffer capped at 64 instead of Concurrency", "Concurrency > 64, fail-fast, a failure while >= 66 jobs are in flight"),
 "C07-d": ("compile.go: providers resolved through a map keyed by types.TypeString (same mechanism as C01-d, found independently)", "spelling variants of one type on both sides; failing producer; >= 2 workers"),
 "C08-d": ("loop enqueue arm: `if job.remaining == 0 || job.invalid` puts an invalid job on the ready list while dependencies are outstanding", "ContinueOnError; a job with >= 2 dependencies enqueued after one failed and was recorded while another still runs; another job outstanding"),
 "C09-d": ("templates: a sync.WaitGroup of in-flight instrumented tasks awaited in the deferred epilogue", "an instrumented task still running when the context ends"),
 "C11-d": ("templates: predicate gate renamed skipN with inverted sense; a panicking predicate leaves it 'run'", "a predicate that panics"),
 "C12-d": ("EmitterStack reuses the first argument's slice when it is already a stack (append into the shared backing array)", "a shared EmitterStack with spare capacity as first of >= 2 WithEmitter; executions that overlap in time"),
 "C19-d": ("loop enqueue arm fast path: non-blocking send on readyc without the ongoing < concurrency gate", "all workers busy, a result unread in donec, a dependency-free job enqueued, a state report before the done arm"),
 "C02-e": ("compile.go: a predicate function shared by several tasks is compiled once, keyed by *types.Func (receiver ignored)", "two tasks gated by the same method of different receivers whose answers differ"),
 "C10-e": ("slice/map templates: loop-variable copies emitted only when the module's go version is below 1.22", "module on go >= 1.22 and a directive file pinned lower by `//go:build cff && go1.21`; more elements than free workers"),
 "C14-e": ("cycle.go walks fn.inputs() (no predicate sentinel) + toposort marks nodes on entry", "a cycle closed by a task -> own-predicate edge"),
 "C15-e": ("parallel/slice.go.tmpl: the collection is emitted with rawExpr, i.e. evaluated in the body instead of the prologue", "a Parallel with other tasks or later arguments and a collection expression with side effects; or a collection named like a generated identifier"),
 "C16-e": ("cmd/cff run: matched -file entries are deleted from the map and `len(outputs) > 0` replaces hadFiles: the filter lapses after the last match", "-file selection with an unselected directive file visited later, or test files in the package"),
 "C17-e": ("writeGenerated skips the write when the existing output starts with the new text (io.ReadFull of len(src) bytes)", "regeneration over an older, longer output of which the new text is a strict prefix"),
 "C18-e": ("flow.go.tmpl: the deferred TaskSkipped sweep is emitted only for flows with InstrumentFlow", "a flow without InstrumentFlow, an instrumented task whose predicate is false"),
 "C04-e": ("parallel/map.go.tmpl: a MapEnd function of type func(context.Context) error is scheduled directly, without the closure holding the recover", "a panic in a MapEnd function with exactly that signature"),
 "C13-e": ("compile.go isPackagePathEquivalent collapsed to a suffix test", "a file importing `time` and a local package whose path ends in /time, a type of the latter as flow value type"),
 "C20-e": ("process.go: InstrumentAllTasks only passed on in base mode", "-genmode=source-map together with -auto-instrument on a flow with InstrumentFlow and an uninstrumented task"),
 "C01-e": ("loop enqueue arm filters job.deps in place (`waitingOn := job.deps[:0]`): the caller's Dependencies backing array is overwritten", "Dependencies slices of different jobs sharing one backing array at different offsets; an earlier dependency finished, later ones not"),
 "C03-e": ("flow templates: a predicate that needs only flow inputs runs inline on the caller goroutine instead of as a job", "a flow with such a predicate declared after >= N independent tasks that are still running"),
 "C06-e": ("loop: head-of-ready jobs whose context is done are finished above the select; the exit test stays below it", "ContinueOnError; context cancelled mid-run, Wait reached, jobs still queued when the last result comes back"),
 "C07-e": ("per-job `remaining` counter replaced by a blocked(j) scan of the done flags", "a job whose Dependencies name the same job twice (a multi-result task feeding two results into one consumer)"),
 "C08-e": ("loop donec arm: `if !s.continueOnError || isContextError(err)` - context-flavoured errors stop the scheduler", "ContinueOnError; a task returning an error wrapping context.Canceled / DeadlineExceeded, or a job skipped under its own cancelled context"),
 "C09-e": ("parallel/slice.go.tmpl: SliceEnd is called by the element job that counts an atomic down to zero instead of being a job", "context done after every element has started, all elements returning nil"),
 "C11-e": ("flow/task.go.tmpl: shared taskFallback sub-template skips the store when the fallback is the literal nil", "FallbackWith(nil) for some output, the task fails and returns a non-zero value in that position"),
 "C12-e": ("Enqueue copies Dependencies through an unsynchronised block allocator (Scheduler.depsBlock)", "Enqueue from >= 2 goroutines with non-empty Dependencies"),
 "C19-e": ("ticker arm: IdleWorkers computed from pending - waiting instead of ongoing", "a state report while a job sits in the ready list and a worker is free"),
 "C05-e": ("Enqueue: non-blocking send, then select between the send and ctx.Done(): a job whose context is done may never reach the loop", "a job enqueued with its own, already cancelled context while the one-slot enqueue channel is occupied; a later job depends on it; Wait with a live context"),
 "C02-f": ("graph.go reduce(): transitive reduction of job dependencies treats [p, p] as two edges implying each other", "a consumer taking two values from the same multi-output task, no other path to it; >= 2 workers; provider still running"),
 "C04-f": ("templates: one-line PanicError literal + a `{{- end -}}` that glues it onto a comment line in slice/map element closures with an End hook", "a panic in an element function of a Slice/Map that has SliceEnd/MapEnd"),
 "C13-f": ("gen.go importName guesses the package name of an unnamed import from the last path element", "unnamed import of .../debug/v2 (package debug) and a generated import of runtime/debug"),
 "C14-f": ("compile.go: Invoke and Predicate sentinels built by one helper: sentinel k of both kinds is the same type", "one flow with an Invoke(true) task and a predicated task"),
 "C15-f": ("new template function deref: cff.Results(&X) stores through the raw operand X after Wait instead of a hoisted pointer", "a Results argument &X whose operand has side effects (&slots[next()])"),
 "C16-f": ("cmd/cff run takes the file path from fset.Position(file.Package).Filename", "a source file with a //line directive before its package clause"),
 "C17-f": ("templates cached per process behind sync.Once with the first generator's magic token bound", "source-map mode and a second directive file (or an in-package test) processed in the same run"),
 "C20-f": ("modifier generator's typeID keyed by types.TypeString", "modifier mode; producer and consumer spell one type differently"),
 "C18-f": ("flow/task.go.tmpl: a trailing comment plus `{{- if .FallbackWith -}}` glue TaskPanic / TaskPanicRecovered onto the comment line", "an instrumented flow task whose function or predicate panics"),
 "C10-f": ("scheduler loop: container/list ready list replaced by a slice-backed queue whose PushBack compaction copies into a too-short destination", "a PushBack that finds the 128-entry ready slice exactly full with more jobs queued than dispatched: > 128 jobs whose functions are slower than the enqueue loop"),
 "C05-f": ("scheduler loop, enqueue arm: a job found invalid at enqueue is resolved on the spot (done, errJobInvalid, not counted in pending) but stays registered as consumer of its unfinished dependencies", "ContinueOnError; a job with >= 2 dependencies enqueued when one has already failed and another is still running: it is dispatched later, pending ends at -1, Wait never returns"),
 "C06-f": ("Config.New: result channel donec sized min(Concurrency, 64) instead of Concurrency", "Concurrency > 64, fail-fast, a failure while more than 64 other jobs are in their bodies: the workers beyond the 64 slots block forever posting"),
 "C12-f": ("Wait, ctx.Done() arm: returns s.err when non-nil (reads the loop-owned field without the close(finishedc) edge)", "Wait leaves through ctx.Done() while the loop is alive and a job reports an error around that moment"),
 "C19-f": ("scheduler loop, enqueue arm: waiting++ for every job that declares dependencies, before the dependency loop", "a non-nil emitter and a job whose dependencies have all finished before it is enqueued, then a tick: Pending != Ready + Waiting + executing, later Waiting > Pending"),
}
rows = []
for sid in sorted(D):
    d = os.path.join(V, "seeded", sid)
    if not os.path.isdir(d):
        continue
    mp = os.path.join(d, "meta.json")
    old = json.load(open(mp)) if os.path.exists(mp) else {}
    meta = dict(id=sid, breaks=sid.split("-")[0], change=D[sid][0], needs=D[sid][1], patch="patch.diff", demonstration="demo/RUN.sh",
                notes="NOTES.md (the author's own description; for C01, C04, C07, C08, C10 it covers both -a (mutant.diff) and -b (mutant2.diff))",
                what_i_ran=RAN, detected=old.get("detected", {}))
    json.dump(meta, open(mp, "w"), indent=1)
    det = []
    for k, v in sorted(meta["detected"].items()):
        mark = {1: "VIOLATION", 0: "missed", 2: "inconclusive"}.get(v["rc"], "rc=%s" % v["rc"])
        what = (v["violations"] or v["other"] or [""])[0]
        det.append("%s: %s%s" % (k, mark, (" - " + what[:110]) if what and v["rc"] == 1 else ""))
    rows.append("| %s | %s | %s | %s |" % (sid, D[sid][0], D[sid][1], "<br>".join(det) or "not run yet"))
open(os.path.join(V, "seeded", "MATRIX.md"), "w").write(
    "# Seeded changes and what the checks report on them\n\nGenerated by tools/seeded_meta.py from seeded/*/meta.json (results recorded by tools/matrix, "
    "which applies each patch to a scratch worktree of /repo's HEAD and runs the named check with VERIF_REPO pointing there).\n\n"
    "| id | change | needs | last results |\n|---|---|---|---|\n" + "\n".join(rows) + "\n")
print(len(rows), "rows")
