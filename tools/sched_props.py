"""Per-property checks at the scheduler level."""
import sched_checks as S
import gen_checks as G

MC = "model_checking"


def rnd(c, runs, maxj=8, maxn=3, extra=()):
    return ["-mode", "random", "-seed", c.seed, "-runs", runs, "-maxj", maxj, "-maxn", maxn] + list(extra)


def scripts(c, n, **kw):
    path, k = S.gen_scripts(c, n, **kw)
    return ["-mode", "script", "-in", path, "-runs", k, "-seed", c.seed]


RULE = ("spec: TLC exhaustive over every DAG/outcome/mode of the listed configs (states = distinct states); "
        "impl: one evaluation = one run of the real scheduler (seeded random input and pacing, or a behaviour of "
        "Sched.tla chosen by TLC's simulator and replayed step by step); each run is validated twice, as a stamped "
        "API trace against JobSysTrace.tla and as a hook trace against SchedTrace.tla")


def generic(prop, quick_cfgs, thorough_cfgs, qruns=600, truns=4000, qscripts=300, tscripts=2000, sim_kw=None, extra=None):
    def check(c):
        S.tlc_spec(c, quick_cfgs if c.quick else thorough_cfgs)
        if prop == "C19":
            S.apalache_counters(c)
        batches = [("random", rnd(c, qruns if c.quick else truns)),
                   ("scripted", scripts(c, qscripts if c.quick else tscripts, **(sim_kw or {})))]
        # one long delay behind one step of the scheduler; and enqueues that meet finished / failed / running dependencies
        batches.append(("focus", ["-mode", "focus", "-seed", c.seed, "-runs", 400 if c.quick else 4000, "-maxj", 8, "-maxn", 3]))
        # (several processes: a driver stops after 8 abnormal runs, whose leftover goroutines would blur later ones)
        for i in range(3):
            batches.append(("phased-%d" % i, ["-mode", "phased", "-seed", c.seed * 10 + i, "-runs", 120 if c.quick else 1200]))
        for ex in (extra or []):
            batches.append((ex[0], ex[1](c)) + tuple(ex[2:]))
        if not c.quick:
            batches.append(("random-big", rnd(c, truns // 6, maxj=30, maxn=8)))
        S.conformance(c, batches, hook_limit=150 if c.quick else 800)
        # the same property one level up: freshly generated Flow / Parallel code (monitor DirSys.tla)
        if c.quick:
            G.pipeline(c, 80, 60, 4, seed_off=50)
        else:
            for r in range(2):
                G.pipeline(c, 300, 200, 10, seed_off=50 + r)
        c.assumptions += ["the hooks report what the scheduler does (add-only one-line calls, tag verif)",
                          "stamps are a linearization of the API events (mutex-ordered log)",
                          "TLC bounds: see tlc_runs; beyond them only simulation and conformance"]
        return c.finish(MC, RULE)
    return check


def c12(c):
    """Data-race freedom: the schedules come from the same sources as for the other properties
    (seeded random runs, behaviours chosen by TLC), executed without stamps and without the hook
    collector (both would add synchronisation) under the Go race detector."""
    import os, re, subprocess
    S.tlc_spec(c, ["q_ff"] if c.quick else ["q_ff", "t_all3"])      # Ownership invariant
    drv = S.build_driver(c, race=True)
    batches = [("race-random", rnd(c, 1500 if c.quick else 20000, extra=["-nostamp"])),
               ("race-random-big", rnd(c, 200 if c.quick else 3000, maxj=40, maxn=8, extra=["-nostamp"])),
               ("race-scripted", scripts(c, 300 if c.quick else 3000) + ["-nostamp"]),
               ("race-concenq", ["-mode", "concenq", "-seed", c.seed, "-runs", 400 if c.quick else 5000, "-nostamp"])]
    reports = 0
    for name, args in batches:
        c.log("driver", name)
        out = os.path.join(c.scratch, name)
        env = dict(S.GOENV, GORACE="halt_on_error=0 exitcode=66")
        r = subprocess.run([drv, "-out", out] + [str(a) for a in args], capture_output=True, text=True, timeout=3000, env=env)
        text = r.stdout + r.stderr
        n = sum(1 for _ in open(os.path.join(out, "runs.ndjson"))) if os.path.exists(os.path.join(out, "runs.ndjson")) else 0
        c.cov["evaluations"] += n
        c.cov["traces_validated_against_impl"] += 0
        if len(c.cov["samples"]) < 3 and n:
            import json
            c.cov["samples"].append(dict(batch=name, run=json.loads(open(os.path.join(out, "runs.ndjson")).readline())))
        races = text.split("WARNING: DATA RACE")[1:]
        for rep in races:
            rep = rep.split("==================")[0]
            if "go.uber.org/cff" in rep:
                reports += 1
                c.violation("C12", "race detector report in batch %s:\n%s" % (name, rep[:1500]),
                            dict(kind="race", batch=name, args=[str(a) for a in args], report=rep[:6000]))
            else:
                c.inconclusive.append("race report outside cff code in batch %s (harness?): %s" % (name, rep[:300]))
        if r.returncode not in (0, 66):
            c.inconclusive.append("driver %s exited with %d: %s" % (name, r.returncode, text[-500:]))
    # generated code under the race detector (early returns on failure / cancellation included)
    G.pipeline(c, 60 if c.quick else 400, 40 if c.quick else 300, 4 if c.quick else 10, seed_off=70, race=True, par_exec=4)
    c.assumptions += ["the race detector sees only the executions that were run; its happens-before analysis generalises "
                      "over the interleavings of each of them", "driver bodies are race-free by construction (no shared state)"]
    c.cov["distinct_nontrivial"] = c.cov["evaluations"]
    return c.finish("exploration", "one evaluation = one run of the real scheduler under -race (random input/pacing or a "
                    "TLC-chosen behaviour), plain job bodies, no stamps, no hook collector; non-trivial = every run "
                    "(distinct seeds / distinct TLC behaviours)", distinct_nontrivial=c.cov["evaluations"])


CAPACITY = ("capacity", lambda c: ["-mode", "capacity", "-seed", c.seed, "-runs", 150 if c.quick else 1500])
# the default limit max(GOMAXPROCS, 4) under different GOMAXPROCS values (expected 4, 4, 8)
CAPDEF = [("capacity-gomaxprocs%d" % g, (lambda c: ["-mode", "capacity", "-defaultn", "-seed", c.seed, "-runs", 12 if c.quick else 100]),
           {"GOMAXPROCS": str(g)}) for g in (1, 2, 8)]
CONCENQ = ("concenq", lambda c: ["-mode", "concenq", "-seed", c.seed, "-runs", 200 if c.quick else 2000, "-nohooks"])
PROMPT = ("prompt", lambda c: ["-mode", "prompt", "-seed", c.seed, "-runs", 120 if c.quick else 1200])
WIDE = ("wide", lambda c: ["-mode", "wide", "-seed", c.seed, "-runs", 8 if c.quick else 60, "-deadline", "4s"])
PILEUP = ("pileup", lambda c: ["-mode", "pileup", "-seed", c.seed, "-runs", 250 if c.quick else 2500])

REGISTRY = {
    "C01": generic("C01", ["q_dup"], ["q_dup", "t_ff4", "t_coe4"],
                   extra=[("fanin", lambda c: ["-mode", "fanin", "-seed", c.seed, "-runs", 6 if c.quick else 60, "-maxj", 600, "-maxn", 8]), CONCENQ]),
    "C03": generic("C03", ["q_exit"], ["q_exit", "t_n3", "t_ctx2"], extra=[CAPACITY] + CAPDEF),
    "C05": generic("C05", ["q_exit", "q_can"], ["q_exit", "q_can", "t_all3", "t_ff4"], extra=[PILEUP, WIDE]),
    "C06": generic("C06", ["q_ff"], ["q_ff", "t_all3", "t_ff4"], extra=[PILEUP, WIDE]),
    "C07": generic("C07", ["q_ff", "q_ctx2"], ["q_ff", "t_ff4", "t_can4", "t_ctx2"]),
    "C08": generic("C08", ["q_coe"], ["q_coe", "t_coe4", "t_all3"]),
    "C09": generic("C09", ["q_can", "q_ctx2"], ["q_can", "t_can4", "t_all3", "t_ctx2"], extra=[PROMPT]),
    "C12": c12,
    "C19": generic("C19", ["q_ff"], ["q_ff", "t_n3"], extra=[PILEUP]),
}
