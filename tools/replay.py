"""tools/check <id> <tier> --replay <file>: re-runs the case a VIOLATION line points to.

A replay file (out/replay-<id>-<hash>.json) holds the property, the seed, the tier and the case.  Scheduler
runs (kind sched-run) and executions of generated code (kind gen-exec) are re-executed on their own, several
times (schedules vary); every other kind is reproduced by re-running the whole check with the recorded seed and
tier, which regenerates the same corpus."""
import json, os
import sched_checks as S
import gen_checks as G


def replay(c, rp, registry):
    case = rp.get("replay") or {}
    kind = case.get("kind")
    if kind == "sched-run" and case.get("spec"):
        path = os.path.join(c.scratch, "replay.ndjson")
        with open(path, "w") as f:
            for k in range(25):
                rs = dict(case["spec"], run=k + 1)
                f.write(json.dumps(rs) + "\n")
        S.conformance(c, [("replay", ["-mode", "replay", "-in", path])], hook_limit=25)
        return c.finish("model_checking", "replay of one recorded scheduler run, 25 times")
    if kind == "gen-exec" and case.get("program") and case.get("job"):
        prog = case["program"]
        if "style" in prog:
            cff = c.build_cff()
            root, pk, jobs = G.make_corpus(c, 0, 0, 0, seed_off=990, progs=[prog])
            jobs = [dict(exec=k + 1, prog=prog["name"], sc=case["job"]["sc"], par=1) for k in range(25)]
            with open(os.path.join(root, "scen.ndjson"), "w") as f:
                f.write("".join(json.dumps(j) + "\n" for j in jobs))
            problems = G.generate(c, cff, root, pk, case.get("mode", "base"))
            binary, err = (None, "cff failed") if problems else G.build_runner(c, root)
            if binary is None:
                c.violation("C13", "the replayed program is not generated / does not compile: " + (problems[0][2] if problems else err)[-600:], case)
                return c.finish("model_checking", "replay")
            trace, r, last = G.execute(c, binary, root)
            viols, nexec = G.validate(c, trace, "replay")
            for ex, stamp, prop, what in viols:
                if prop not in ("HARNESS", "INCONCLUSIVE"):
                    c.violation(prop, "%s (replayed program %s, execution %s)" % (what, prog["name"], ex), case)
            c.cov["traces_validated_against_impl"] += nexec
            return c.finish("model_checking", "replay of one program under one scenario, 25 times")
    # everything else: the recorded seed and tier regenerate the same corpus
    return registry[c.prop](c)
