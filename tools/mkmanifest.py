#!/usr/bin/env python3
"""Regenerates MANIFEST.json from the table below (kept in one place so it stays valid)."""
import json, os
V = os.path.dirname(os.path.dirname(os.path.abspath(__file__)))
props = [json.loads(l) for l in open(os.path.join(V, 'properties.jsonl'))]
SCHED = "TLA+ spec (Sched.tla refines JobSys.tla) model-checked with TLC; trace validation of real executions (random + TLC-scripted) against JobSysTrace.tla and SchedTrace.tla; generated code against the monitor DirSys.tla"
DIR = "TLA+ monitor spec DirSys.tla fed (DirTrace.tla, TLC) with the stamped events of freshly generated code executed under enumerated single-fault and random scenarios"
T = {
 "C01": ("model_checking", SCHED, "TLC checks DepsBeforeRun (at most once, only after every dependency ended ok) and the refinement Sched => JobSys on every DAG (duplicate dependency entries included), both error modes; the real scheduler is bound to the specs by trace validation in both directions (random runs and TLC-chosen behaviours replayed step by step; stamped API traces vs JobSysTrace.tla, hook traces vs SchedTrace.tla); generated Flow/Parallel code is checked by the monitor DirSys.tla (a unit starts only after its providers / predicate / elements ended ok)."),
 "C02": ("model_checking", DIR, "Every execution of freshly generated Flow code is checked event by event by the TLA+ monitor DirSys.tla: each task invoked exactly once with exactly its providers' tokens, Results equal the providers' tokens on nil; programs, listing orders, type spellings, concurrency values and schedules are enumerated/sampled; 8 simultaneous executions of the same function."),
 "C03": ("model_checking", SCHED, "RunningBound / WorkerPopulation on Sched.tla incl. Goexit and replacement workers; JobSys!Start is guarded by nrun < N; real runs: in-flight accounting on linearizable stamps, distinct goroutines that ever ran a body <= N + Goexits."),
 "C04": ("model_checking", DIR, "Single-fault enumeration: for every user function instance of every rendered program (task, predicate, parallel task, slice/map element, End hook) a scenario in which exactly it panics (string, error, runtime error, struct values), plus random multi-fault scenarios; the monitor requires a PanicError carrying that value unless FallbackWith absorbs it, no propagation, no process death."),
 "C05": ("model_checking", SCHED, "Terminates (caller returns) under per-process weak fairness plus deadlock freedom on Sched.tla for all DAGs/outcomes {ok,err,goexit,cancel}/modes, cancellation at every instant; every real run has a watchdog that confirms a hang by two identical all-blocked goroutine dumps."),
 "C06": ("model_checking", SCHED, "Every terminal state of Sched.tla has the loop and all workers exited (TLC deadlock check: Finished is the only step of a quiescent state); after every real run the process is inspected for goroutines with a scheduler frame once all started bodies have returned."),
 "C07": ("model_checking", SCHED, "FailFastSound on Sched.tla and the WaitReturn guard of JobSys; real runs: the returned error is decomposed into identity tokens of the very error values the bodies returned and checked against the contract at the WaitReturn event; generated code: Results targets are preloaded with sentinels."),
 "C08": ("model_checking", SCHED, "CoeExact on Sched.tla and the ContinueOnError clause of JobSys!WaitOK (multiset of error tokens = failed jobs, no sentinel, everything runnable ran, nothing downstream ran); real runs decomposed with multierr.Errors, shared error values included; Parallel programs with constant and non-constant ContinueOnError."),
 "C09": ("model_checking", SCHED, "NoDoomedStart / CancelledNotNil on Sched.tla, the doomed set of JobSys (the three concrete cases of the statement); real runs stamp cancel_begin/cancel around cancel() (or observe a deadline) so that 'started after the cancellation completed' is decided on linearizable stamps; explicit, timer and deadline cancellations; every function that asks for a context must get the directive's."),
 "C10": ("model_checking", DIR, "Monitor DirSys.tla on generated Parallel code: every Task/Tasks function, every (i, s[i]) and (k, m[k]) exactly once with the right arguments, End hooks after all their elements ended ok and never after a failure; sizes 0..3 and nil, index/no-index, ctx/no-ctx, error/no-error, named slice types."),
 "C11": ("model_checking", DIR, "Monitor DirSys.tla on generated Flow code with predicates and fallbacks: predicate once with its providers' tokens, task only if true, zero values downstream of a false predicate, fallback tokens after error / panic / predicate panic; one 'slow' scenario per function exposes a missing dependency edge."),
 "C12": ("exploration", "Go race detector over TLC-chosen and random schedules; Ownership invariant on Sched.tla", "The Ownership invariant of Sched.tla is the happens-before argument (TLC-checked); the verdict on the code is the Go race detector run on random runs, TLC-scripted behaviours and generated code incl. early returns."),
 "C15": ("model_checking", DIR, "Every argument expression of every rendered directive is wrapped in h.Arg(x, k, expr), numbered in source order; the monitor requires k = 1..m exactly once each, increasing, on the calling goroutine, before the first user function starts; option order is shuffled."),
 "C18": ("model_checking", DIR, "Recording emitter leaves (0..2, flat, nested stack, with a NopEmitter); the monitor compares each leaf's event multiset with what the property prescribes for the observed outcomes (one Success/Error carrying the returned error, one Done, one matching outcome event and one TaskDone per invocation, TaskSkipped for un-invoked tasks on nil)."),
 "C19": ("model_checking", SCHED, "StateReportOK on Sched.tla in every state in which the ticker arm can fire; real runs use a 1ns ticker and a slow Emitter callback, every emitted State is stamped and checked against the relations and against the number of jobs submitted so far."),
}
checks = []
for p in props:
    i = p['id']
    if i not in T:
        continue
    cat, tech, text = T[i]
    checks.append(dict(property_id=i, quick_cmd="tools/check %s quick" % i, thorough_cmd="tools/check %s thorough" % i,
        evidence_file="evidence/%s.json" % i, replay_cmd_template="tools/check %s quick --replay {path}" % i,
        engine="tlc+trace-validation",
        level_claimed=dict(category=cat, text=text, design_ref="DESIGN.md §3, §4, §6 " + i),
        level_note="Bounded: TLC is exhaustive only within the constants of the configs named in the evidence file; the code is tied to the specs by validating finitely many executions (hooks are add-only one-liners under the verif tag; stamps are a mutex-ordered log; harness bodies report truthfully).",
        technique=tech))
na = [dict(property_id=p['id'], reason="not built yet in this commit (planned: DESIGN.md §6); no check is registered and nothing is claimed") for p in props if p['id'] not in T]
m = dict(version=1, setup_cmd="tools/setup",
  hooks=dict(guard="verif (Go build tag)", enable="go build -tags verif (the harness module replaces go.uber.org/cff => /repo)",
             baseline_off_cmd="cd /repo && GOFLAGS=-mod=mod go test -vet=off -count=1 ./... ; cd /repo/internal/tests && GOFLAGS=-mod=mod go test -vet=off -count=1 ./...",
             source_commits=["5782c88"], add_only=True),
  engines=[dict(name="tlc+trace-validation", path="tools/check", serves_properties=sorted(T), kind_free_text="TLC model checking of spec/*.tla plus trace validation of the real scheduler (harness/cmd/scheddrv) and of freshly generated code (tools/render.py, harness/pkg/h)")],
  checks=checks, not_applicable=na,
  notes="fix: commits in /repo: 4f5337d ee4e993 477b670 b54b375 9d31e9d (see known_findings.jsonl)")
json.dump(m, open(os.path.join(V, 'MANIFEST.json'), 'w'), indent=1)
print("claimed", len(checks), "not applicable", len(na))
