"""Probes for the genuine defects that are recorded rather than repaired (known_findings.jsonl,
status "known").  Each probe is a tiny package under findings/F6-F9 run through the real cff; the check
prints KNOWN-FINDING only if the recorded signature is what fails; a different failure of the same
input is a violation; if the input no longer fails, nothing is printed."""
import json, os, re, shutil, subprocess
from vlib import VERIF, REPO, GOENV, load_known, Inconclusive


def run_probe(c, cff, probe):
    root = os.path.join(c.scratch, "kf-" + probe)
    os.makedirs(os.path.join(root, probe))
    shutil.copy(os.path.join(VERIF, "findings", "F6-F9", probe, probe + ".go"), os.path.join(root, probe))
    open(os.path.join(root, "go.mod"), "w").write("module kf\n\ngo 1.19\n\nrequire go.uber.org/cff v0.1.0\n\nreplace go.uber.org/cff => %s\n" % REPO)
    shutil.copy(REPO + "/internal/tests/go.sum", os.path.join(root, "go.sum"))
    r = subprocess.run([cff, "-quiet", "kf/" + probe], cwd=root, env=GOENV, capture_output=True, text=True, timeout=300)
    gen = os.path.join(root, probe, probe + "_gen.go")
    res = dict(rc=r.returncode, out=(r.stdout + r.stderr)[-2000:], crashed=("panic:" in (r.stdout + r.stderr) or "fatal error:" in (r.stdout + r.stderr)) and "goroutine " in (r.stdout + r.stderr),
               build="", surviving=0, generated=os.path.exists(gen))
    if res["generated"]:
        b = subprocess.run(["go", "build", "./" + probe + "/"], cwd=root, env=GOENV, capture_output=True, text=True, timeout=300)
        res["build"] = (b.stdout + b.stderr)[-2000:] if b.returncode != 0 else ""
        res["surviving"] = len(re.findall(r"\bcff\.(Flow|Parallel)\(", open(gen).read()))
    return res


def check_known(c, cff, props):
    """Runs the probes of the known findings of the given properties; files KNOWN-FINDING lines / violations in c."""
    for k in load_known():
        if k.get("status") != "known" or k["property"] not in props:
            continue
        sig = k["signature"]
        res = run_probe(c, cff, sig["probe"])
        if res["crashed"]:
            c.violation("C13", "cff died with a Go panic on the input of known finding %s: %s" % (k["id"], res["out"][-800:]), dict(kind="known-probe", probe=sig["probe"]))
            continue
        failing = bool(res["build"]) or res["surviving"] > 0 or res["rc"] != 0
        if not failing:
            c.notes.append("known finding %s no longer reproduces" % k["id"])
            continue
        matches = False
        if "error_regex" in sig and res["build"] and re.search(sig["error_regex"], res["build"]):
            # every reported error must be explained by the recorded signature
            errs = [l for l in res["build"].splitlines() if re.match(r".*\.go:\d+:\d+: ", l)]
            matches = all(re.search(sig["error_regex"], l) for l in errs)
        if "surviving_directives" in sig and res["surviving"] == sig["surviving_directives"] and not res["build"]:
            matches = True
        if matches:
            c.known.append("KNOWN-FINDING: property=%s %s" % (k["property"], k["what"]))
        else:
            c.violation(k["property"], "the input of known finding %s fails in another way than recorded: rc=%s surviving=%s build=%s" %
                        (k["id"], res["rc"], res["surviving"], res["build"][-600:]), dict(kind="known-probe", probe=sig["probe"], result=res))
