#!/usr/bin/env python3
import sys, json
path, ex = sys.argv[1], int(sys.argv[2])
for l in open(path):
    e = json.loads(l)
    if e["exec"] != ex: continue
    if e["ev"] == "reset":
        p = e["prog"]
        print("PROG", p["name"], p["dir"], "params", p["params"], "results", p["results"], "leaves", p["leaves"], "instr", p["instr"], "coemode", p["coemode"], "nargs", p["nargsexpr"])
        for u in p["units"]:
            print("   unit", {k: v for k, v in u.items() if v not in (0, False, [], "")})
        print("SC", {k: v for k, v in e["sc"].items() if v not in (0, False, "", {}, "none")})
    else:
        print(e["stamp"], e["ev"], {k: v for k, v in e.items() if k not in ("ev", "exec", "stamp") and v not in (0, False, [], "", -1, None)})
