"""Checks for the scheduler-level properties (C01, C03, C05-C09, C19, C12):
TLC on Sched.tla / JobSys.tla, then conformance of the real scheduler:
random and TLC-scripted runs -> stamped API traces validated by JobSysTrace.tla,
hook traces validated by SchedTrace.tla."""
import json, os, re, subprocess, collections
from vlib import Inconclusive, GOENV, OUTDIR

# ------------------------------------------------------------------ TLC configs on the spec
INV_ALL = ("TypeOK DepsBeforeRun RunningBound WorkerPopulation StateReportOK OngoingBound FailFastSound "
           "CoeExact NoDoomedStart CancelledNotNil Ownership")


def sched_cfg(maxj, maxn, g, coes, cancel, outcomes, dup=False, inv=INV_ALL, props="Terminates Refines",
              deadlock=True, gated=True, ctx2=False):
    return ("CONSTANTS MaxJ = %d  MaxN = %d  G = %d  COES = {%s}  CANCEL = %s  GATED = %s  DUPDEPS = %s  CTX2 = %s\n"
            "OUTCOMES = {%s}\nSPECIFICATION Spec\nINVARIANTS %s\n%sCHECK_DEADLOCK %s\n" % (
                maxj, maxn, g, ", ".join(coes), str(cancel).upper(), str(gated).upper(), str(dup).upper(), str(ctx2).upper(),
                ", ".join('"%s"' % o for o in outcomes), inv,
                ("PROPERTIES %s\n" % props) if props else "", str(deadlock).upper()))


# name -> (config text, timeout); measured wall times in comments (16 workers)
SPEC_CFGS = {
    # quick configurations: every DAG of 3 jobs
    "q_ff":   sched_cfg(3, 2, 0, ["FALSE"], True, ["ok", "err"], props="Terminates Refines RefinesCounters"),                       # 0.74 M states, 35 s
    "q_coe":  sched_cfg(3, 2, 0, ["TRUE"], False, ["ok", "err"], dup=True, props="Terminates Refines RefinesCounters"),
    "q_exit": sched_cfg(3, 2, 3, ["TRUE", "FALSE"], False, ["ok", "goexit"]),
    "q_can":  sched_cfg(3, 2, 0, ["TRUE", "FALSE"], False, ["ok", "cancel"]),
    "q_dup":  sched_cfg(3, 2, 0, ["TRUE", "FALSE"], False, ["ok", "err"], dup=True, props="Refines"),
    # two contexts: jobs enqueued with a context of their own, cancelled independently of Wait's
    "q_ctx2": sched_cfg(3, 2, 0, ["FALSE"], True, ["ok"], ctx2=True, props="Refines"),
    "t_ctx2": sched_cfg(3, 2, 0, ["TRUE"], True, ["ok", "err"], ctx2=True, props="Refines"),    # 11.4 M states, 5.5 min (8 workers, loaded machine)
    # (both modes x {ok, err, goexit} x G = 3 with two contexts did not finish within the 50-minute limit)
    # thorough configurations
    "t_ff4":  sched_cfg(4, 2, 0, ["FALSE"], False, ["ok", "err"]),
    "t_coe4": sched_cfg(4, 2, 0, ["TRUE"], False, ["ok", "err"]),
    "t_can4": sched_cfg(4, 2, 0, ["FALSE"], True, ["ok", "err"], props="Refines"),
    "t_n3":   sched_cfg(3, 3, 3, ["TRUE", "FALSE"], True, ["ok", "err", "goexit"], props="Refines"),
    # every outcome together, both modes, replacement workers (1.9 M states, 3 min on a loaded machine; with external
    # cancellation at every instant and duplicate dependencies on top TLC did not finish within the 50-minute limit:
    # those are covered separately by q_ff / q_can / t_can4 and q_dup / q_coe)
    "t_all3": sched_cfg(3, 2, 3, ["TRUE", "FALSE"], False, ["ok", "err", "goexit", "cancel"], dup=False),
}

SIM_CFG = """CONSTANTS MaxJ = %d  MaxN = %d  G = 6  COES = {TRUE, FALSE}  CANCEL = %s  GATED = TRUE  DUPDEPS = TRUE  CTX2 = TRUE
OUTCOMES = {%s}
INIT SimInit
NEXT SimNext
INVARIANT Emit
CHECK_DEADLOCK FALSE
"""


def tlc_spec(c, names):
    for n in names:
        c.log("TLC", n)
        c.tlc("Sched", SPEC_CFGS[n], n, workers=16, timeout=3000)


def apalache_counters(c):
    """C19's arithmetic for unbounded numbers of jobs and workers: Apalache discharges Init => IndInv and
    IndInv /\\ Next => IndInv' of spec/SchedCounters.tla (Sched.tla refines that module: RefinesCounters)."""
    import shutil as _sh
    if not _sh.which("apalache-mc"):
        c.notes.append("apalache-mc not found: the unbounded inductive-invariant step was skipped")
        return
    d = os.path.join(c.scratch, "apalache")
    os.makedirs(d, exist_ok=True)
    _sh.copy(os.path.join(c.specdir, "SchedCounters.tla"), d)
    done = 0
    for init, length in (("CInit", 0), ("IndInv", 1)):
        try:
            r = subprocess.run(["timeout", "300", "apalache-mc", "check", "--init=" + init, "--next=CNext", "--inv=IndInv",
                                "--length=%d" % length, "--out-dir=" + os.path.join(d, "out"), "SchedCounters.tla"],
                               cwd=d, capture_output=True, text=True, timeout=400)
        except Exception as e:
            c.notes.append("apalache-mc did not run (%s): unbounded step skipped" % e)
            return
        out = r.stdout + r.stderr
        if "The outcome is: NoError" in out:
            done += 1
        elif "The outcome is: Error" in out:
            raise Inconclusive("Apalache: IndInv of SchedCounters.tla is not inductive (--init=%s): a result about the design" % init)
        else:
            c.notes.append("apalache-mc gave no verdict (--init=%s): %s" % (init, out[-200:]))
            return
    c.cov["obligations"] = c.cov.get("obligations", 0) + 2
    c.cov["discharged"] = c.cov.get("discharged", 0) + done
    c.cov["checker_cmd"] = "apalache-mc check --init={CInit,IndInv} --next=CNext --inv=IndInv --length={0,1} SchedCounters.tla"
    c.cov["trusted_base"] = ["apalache 0.58 + z3 (SMT encoding of linear integer arithmetic)", "TLC (refinement Sched => SchedCounters, bounded)"]


# ------------------------------------------------------------------ driver
def build_driver(c, race=False):
    return c.build_go("./cmd/scheddrv", "scheddrv-race" if race else "scheddrv", tags="verif", race=race)


def gen_scripts(c, n, maxj=4, maxn=2, cancel=True, outcomes=("ok", "err", "goexit", "cancel"), name="sim"):
    """Behaviours of Sched.tla chosen by TLC's simulator, as replayable scripts."""
    cfg = SIM_CFG % (maxj, maxn, str(cancel).upper(), ", ".join('"%s"' % o for o in outcomes))
    r = c.tlc("SchedSim", cfg, name, workers=1, timeout=600,
              simulate="num=%d" % n, extra=["-depth", "300", "-seed", str(c.seed)])
    path = os.path.join(c.scratch, name + ".scripts.ndjson")
    k = 0
    with open(path, "w") as f:
        for l in r["output"].splitlines():
            m = re.match(r'<<"SCRIPT", (".*")>>\s*$', l)
            if m:
                f.write(json.loads(m.group(1)) + "\n")
                k += 1
    if k == 0:
        raise Inconclusive("TLC simulation produced no behaviours")
    return path, k


def run_driver(c, drv, name, args, timeout=1200, env=None):
    out = os.path.join(c.scratch, name)
    cmd = [drv, "-out", out] + [str(a) for a in args]
    r = subprocess.run(cmd, capture_output=True, text=True, timeout=timeout, env=dict(GOENV, **(env or {})))
    if r.returncode != 0:
        tail = (r.stdout + r.stderr)[-3000:]
        if "DATA RACE" in tail or "WARNING: DATA RACE" in (r.stdout + r.stderr):
            return out, r
        raise Inconclusive("driver %s failed (%d): %s" % (name, r.returncode, tail))
    return out, r


# ------------------------------------------------------------------ trace validation
def validate_api(c, api_file, name):
    """JobSysTrace.tla over the stamped API trace. Returns the list of recorded violations
    [run, line, property, what] and the number of runs."""
    maxj, nlines = 1, 0
    with open(api_file) as f:
        for l in f:
            nlines += 1
            if '"reset"' in l:
                e = json.loads(l)
                if e["ev"] == "reset":
                    maxj = max(maxj, e["nj"])
    if nlines == 0:
        raise Inconclusive("empty API trace " + name)
    cfg = ('CONSTANTS J = %d  TraceFile = "%s"  MaxViol = 40\nSPECIFICATION TSpec\n'
           'POSTCONDITION Consumed\nCHECK_DEADLOCK FALSE\n' % (maxj, api_file))
    r = c.tlc("JobSysTrace", cfg, "api-" + name, workers=1, timeout=1800)
    m = re.search(r'<<"TRACE-DONE", (\d+), (\d+), (".*")>>', r["output"])
    if not m or int(m.group(1)) != nlines:
        raise Inconclusive("API trace %s was not consumed completely by JobSysTrace (%s of %d lines)" %
                           (name, m.group(1) if m else "?", nlines))
    viols = json.loads(json.loads(m.group(3)))
    return viols, int(m.group(2))


def hook_cfg(path, maxj, maxn, g, sym=False):
    return ('CONSTANTS MaxJ = %d  MaxN = %d  G = %d  COES = {FALSE}  CANCEL = TRUE  GATED = TRUE  DUPDEPS = FALSE  CTX2 = TRUE  SYM = %s\n'
            'OUTCOMES = {"ok"}\nTraceFile = "%s"\nSPECIFICATION TSpec\n'
            'INVARIANTS DepsBeforeRun RunningBound StateReportOK OngoingBound Ownership\nCHECK_DEADLOCK FALSE\n'
            % (maxj, maxn, g, str(sym).upper(), path))


def validate_hooks(c, hook_file, name, max_events=400, max_nj=12, limit=None):
    """SchedTrace.tla over the hook traces. Returns (accepted, rejected list)."""
    traces = json.load(open(hook_file))["traces"]
    groups = collections.defaultdict(list)
    skipped = 0
    for t in traces:
        nev = len(t["caller"]) + len(t["loop"]) + sum(len(w) for w in t["workers"])
        # the search over interleavings grows with the number of worker goroutines: runs with many
        # workers (the default limit is max(GOMAXPROCS,4) = 16 here) are validated at API level only
        if nev > max_events or t["nj"] > max_nj or t["n"] > 4:
            skipped += 1
            continue
        groups["small"].append(t)
    accepted, rejected = 0, []
    for gname, ts in groups.items():
        if limit:
            ts = ts[:limit]
        while ts:
            path = os.path.join(c.scratch, "hook-%s-%s.json" % (name, gname))
            json.dump({"traces": ts}, open(path, "w"))
            maxj = max([t["nj"] for t in ts] + [1])
            maxn = max(t["n"] for t in ts)
            g = max(max(len(t["workers"]) - t["n"], 0) for t in ts)
            r = c.tlc("SchedTrace", hook_cfg(path, maxj, maxn, g), "hook-%s-%s" % (name, gname),
                      workers=1, timeout=1800, dfs=True, allow_violation=True)
            acc = sorted(set(int(x) for x in re.findall(r'<<"TRACE-ACCEPTED", (\d+), \d+>>', r["output"])))
            nacc = 0
            while nacc < len(acc) and acc[nacc] == nacc + 1:
                nacc += 1
            accepted += nacc
            if r["violated"]:
                # an invariant of Sched (a property restated on the implementation-shaped model)
                # failed while following the real run
                bad = ts[nacc] if nacc < len(ts) else None
                rejected.append(dict(kind="invariant:" + r["violated"], trace=bad))
                ts = ts[nacc + 1:]
                continue
            if nacc == len(ts):
                break
            # Which recorded worker goroutine is an initial worker and which a replacement is a guess of the
            # recorder (order of first recorded event); before calling the trace a mismatch, try birth order
            # (goroutine ids) as well.
            bad = ts[nacc]
            alt = dict(bad)
            order = sorted(range(len(bad["workers"])), key=lambda i: bad.get("workerg", [0] * len(bad["workers"]))[i])
            alt["workers"] = [bad["workers"][i] for i in order]
            alt["workerg"] = [bad.get("workerg", [])[i] for i in order] if bad.get("workerg") else []
            ok_alt = False
            if order != list(range(len(order))):
                json.dump({"traces": [alt]}, open(path, "w"))
                r2 = c.tlc("SchedTrace", hook_cfg(path, max(alt["nj"], 1), alt["n"], max(len(alt["workers"]) - alt["n"], 0)),
                           "hook-%s-%s-alt" % (name, gname), workers=1, timeout=1800, dfs=True, allow_violation=True)
                ok_alt = '"TRACE-ACCEPTED", 1,' in r2["output"] and not r2["violated"]
            if not ok_alt:
                # last resort: let TLC choose which goroutine is which (bounded: the search is expensive)
                json.dump({"traces": [bad]}, open(path, "w"))
                try:
                    r3 = c.tlc("SchedTrace", hook_cfg(path, max(bad["nj"], 1), bad["n"], max(len(bad["workers"]) - bad["n"], 0), sym=True),
                               "hook-%s-%s-sym" % (name, gname), workers=1, timeout=240, dfs=True, allow_violation=True)
                    ok_alt = '"TRACE-ACCEPTED", 1,' in r3["output"] and not r3["violated"]
                except Inconclusive:
                    skipped += 1
                    ts = ts[nacc + 1:]
                    continue
            if ok_alt:
                accepted += 1
            else:
                rejected.append(dict(kind="mismatch", trace=bad))
            ts = ts[nacc + 1:]
            if len(rejected) >= 5:
                break
    return accepted, rejected, skipped


# ------------------------------------------------------------------ the pipeline
def conformance(c, batches, hooks=True, hook_limit=None):
    """batches: list of (name, driver args).  Runs each on the real scheduler, validates, and
    files violations / inconclusive results in c."""
    drv = build_driver(c)
    total_runs = 0
    for batch in batches:
        name, args = batch[0], batch[1]
        env = batch[2] if len(batch) > 2 else None
        c.log("driver", name, " ".join(str(a) for a in args), env or "")
        out, r = run_driver(c, drv, name, args, env=env)
        c.notes.append("%s: %s" % (name, r.stdout.strip().splitlines()[-1] if r.stdout.strip() else ""))
        specs = {}
        for l in open(os.path.join(out, "runs.ndjson")):
            rs = json.loads(l)
            specs[rs["run"]] = rs
        viols, nruns = validate_api(c, os.path.join(out, "api.ndjson"), name)
        total_runs += nruns
        c.cov["traces_validated_against_impl"] += nruns
        c.cov["evaluations"] += nruns
        if specs and len(c.cov["samples"]) < 4:
            k = sorted(specs)[len(specs) // 2]
            s = dict(specs[k])
            if len(s.get("script") or []) > 12:
                s["script"] = s["script"][:12] + ["..."]
            c.cov["samples"].append(dict(batch=name, run=s))
        for run, line, prop, what in viols:
            if prop in ("HARNESS", "INCONCLUSIVE"):
                c.inconclusive.append("%s run %s line %s: %s" % (name, run, line, what))
            else:
                c.violation(prop, "%s (batch %s, run %s, trace line %s)" % (what, name, run, line),
                            dict(kind="sched-run", batch=name, spec=specs.get(run)))
        hk = os.path.join(out, "hook.json")
        if hooks and os.path.exists(hk):
            # the interleaving search is expensive for runs in which many workers die and are replaced
            lim = min(hook_limit or 10**9, 20) if name.startswith(("capacity", "prompt")) else hook_limit
            acc, rej, skipped = validate_hooks(c, hk, name, limit=lim)
            c.cov["hook_traces_accepted"] = c.cov.get("hook_traces_accepted", 0) + acc
            c.cov["traces_validated_against_impl"] += acc
            for rj in rej:
                t = rj["trace"] or {}
                c.inconclusive.append("MODEL-MISMATCH (%s): SchedTrace does not accept the hook trace of batch %s run %s "
                                      "(the implementation no longer behaves like spec/Sched.tla)" %
                                      (rj["kind"], name, t.get("run")))
    return total_runs
