"""Checks on freshly generated code: abstract programs are rendered to cff source, the real cff
(built from /repo's working tree) generates code, the code is compiled and executed under
scenarios, and the recorded API-level events are fed to the monitor spec/DirSys.tla by
spec/DirTrace.tla."""
import json, os, random, re, subprocess, shutil
from vlib import Inconclusive, GOENV
import render


def slow_scenarios(rng, p):
    """One scenario per user function in which that function is much slower than the others:
    whatever must wait for it and does not is caught in the act (DepsOK at its start)."""
    out = []
    for u, i in render.insts(p):
        k = str(u["id"]) if i < 0 else "%d:%d" % (u["id"], i)
        sc = render.gen_scenario(rng, p, "ok")
        sc["delayus"] = {k: 2500}
        sc["conc"] = max(sc["conc"], 3)
        out.append(sc)
    return out


def make_corpus(c, nflow, npar, nscen, seed_off=0, par_exec=0, features=None, progs=None, tag="", autoins=False):
    render.HARNESS_OVERRIDE = c.harness_dir()
    """Renders programs into a scratch module. Returns (root, programs by package, jobs)."""
    rng = random.Random(c.seed * 1000003 + seed_off)
    root = os.path.join(c.scratch, "vgen%d%s" % (seed_off, tag))
    if progs is None:
        flows = [render.gen_flow(rng, "F%d" % i) for i in range(1, nflow + 1)]
        pars = [render.gen_parallel(rng, "P%d" % i) for i in range(1, npar + 1)]
        if npar >= 20:
            # collections larger than any byte-sized counter, with End hooks
            pars += [render.gen_parallel_big(rng, "PB1"), render.gen_parallel_big(rng, "PB2", ismap=True)]
    else:
        flows = [p for p in progs if p["dir"] == "flow"]
        pars = [p for p in progs if p["dir"] == "parallel"]
    pk = {}
    if flows:
        pk["pf"] = flows
    if pars:
        pk["pp"] = pars
    for p in flows + pars:
        p["autoins"] = autoins          # generated with -auto-instrument (the monitor judges the implied names)
    render.write_module(root, pk)
    jobs, k = [], 0
    for p in flows + pars:
        if p.get("big"):
            for sc in render.big_scenarios(rng, p):
                k += 1
                jobs.append(dict(exec=k, prog=p["name"], sc=sc, par=1))
            continue
        scs = [render.gen_scenario(rng, p, "ok") for _ in range(2)] + slow_scenarios(rng, p)
        scs += render.fault_scenarios(rng, p)
        scs += render.late_fault_scenarios(rng, p)
        scs += render.hold_scenarios(rng, p)
        scs += render.barrier_scenarios(rng, p)
        scs += [render.gen_scenario(rng, p, "mixed") for _ in range(nscen)]
        for i, sc in enumerate(scs):
            k += 1
            jobs.append(dict(exec=k, prog=p["name"], sc=sc, par=(par_exec if (par_exec and i == 0) else 1)))
    with open(os.path.join(root, "scen.ndjson"), "w") as f:
        f.write("".join(json.dumps(j) + "\n" for j in jobs))
    return root, pk, jobs


def run_cff(c, cff, root, pkg, mode="base", extra=(), timeout=300):
    cmd = [cff, "-quiet"] + (["-genmode", mode] if mode != "base" else []) + list(extra) + ["vgen/" + pkg]
    r = subprocess.run(cmd, cwd=root, env=GOENV, capture_output=True, text=True, timeout=timeout)
    return r


def generate(c, cff, root, pk, mode="base", extra=()):
    """Runs the real cff on every rendered package. Returns list of problems (pkg, kind, text)."""
    problems = []
    for pkg in pk:
        d = os.path.join(root, pkg)
        for f in os.listdir(d):
            if f.endswith("_gen.go"):
                os.remove(os.path.join(d, f))
        r = run_cff(c, cff, root, pkg, mode, extra)
        text = (r.stdout + r.stderr)
        srcs = [f for f in os.listdir(d) if f.endswith(".go") and f != "reg.go" and not f.endswith("_gen.go")]
        missing = [f for f in srcs if not os.path.exists(os.path.join(d, f[:-3] + "_gen.go"))]
        if ("panic:" in text or "fatal error:" in text) and "goroutine " in text:
            problems.append((pkg, "crash", text[-2500:]))
        elif r.returncode != 0 or missing:
            problems.append((pkg, "rejected", text[-2500:]))
    return problems


def build_runner(c, root, race=False):
    out = os.path.join(root, "vgen.bin" + ("-race" if race else ""))
    cmd = ["go", "build", "-tags", "verif", "-o", out] + (["-race"] if race else []) + ["."]
    r = subprocess.run(cmd, cwd=root, env=GOENV, capture_output=True, text=True, timeout=900)
    if r.returncode != 0:
        return None, (r.stdout + r.stderr)[-3000:]
    return out, ""


def execute(c, binary, root, name="trace", deadline="5s", timeout=1800, env=None, extra=()):
    trace = os.path.join(root, name + ".ndjson")
    prog = os.path.join(root, name + ".progress")
    r = subprocess.run([binary, "-progs", os.path.join(root, "programs.json"), "-scen", os.path.join(root, "scen.ndjson"),
                        "-out", trace, "-progress", prog, "-deadline", deadline] + list(extra),
                       cwd=root, env=env or GOENV, capture_output=True, text=True, timeout=timeout)
    last = None
    if os.path.exists(prog):
        ls = open(prog).read().split()
        last = int(ls[-1]) if ls else None
    return trace, r, last


def validate(c, trace, name):
    nlines = sum(1 for _ in open(trace))
    if nlines == 0:
        raise Inconclusive("empty directive trace " + name)
    cfg = 'CONSTANTS TraceFile = "%s"\nSPECIFICATION TSpec\nPOSTCONDITION Consumed\nCHECK_DEADLOCK FALSE\n' % trace
    r = c.tlc("DirTrace", cfg, "dir-" + name, workers=1, timeout=3000)
    m = re.search(r'<<"TRACE-DONE", (\d+), (\d+), (".*")>>', r["output"])
    if not m or int(m.group(1)) != nlines:
        raise Inconclusive("directive trace %s not consumed completely (%s of %d)" % (name, m.group(1) if m else "?", nlines))
    return json.loads(json.loads(m.group(3))), int(m.group(2))


def pipeline(c, nflow, npar, nscen, seed_off=0, par_exec=0, race=False, progs=None, mode="base", cff_extra=(), remap=None, info=None,
             model_traces=0):
    """The whole path for one corpus.  Violations are filed in c; returns number of executions.
    remap: property id -> property id under which a monitor violation is filed (C20 files the
    disagreement of a mode with the reference monitor under its own id); info: dict that receives
    the trace path, the jobs and the corpus root."""
    def viol(prop, what, obj):
        if remap:
            what = "[%s mode violates %s] %s" % (mode, prop, what)
            prop = remap(prop)
        c.violation(prop, what, obj)

    cff = c.build_cff()
    root, pk, jobs = make_corpus(c, nflow, npar, nscen, seed_off, par_exec, progs=progs, tag="" if mode == "base" and not cff_extra else "-" + mode + "".join(cff_extra),
                                  autoins="-auto-instrument" in cff_extra)
    if info is not None:
        info.update(root=root, jobs=jobs, pk=pk)
    byname = {p["name"]: p for ps in pk.values() for p in ps}
    c.log("cff on %d programs (%s)" % (len(byname), mode))
    problems = generate(c, cff, root, pk, mode, cff_extra)
    for pkg, kind, text in problems:
        if kind == "crash":
            viol("C13", "cff died with a Go panic on package %s:\n%s" % (pkg, text[-1500:]),
                        dict(kind="gen-corpus", seed_off=seed_off, pkg=pkg, nflow=nflow, npar=npar))
        else:
            viol("C14", "cff rejected a package of well-formed programs (%s):\n%s" % (pkg, text[-1500:]),
                        dict(kind="gen-corpus", seed_off=seed_off, pkg=pkg, nflow=nflow, npar=npar, programs=pk[pkg][:3]))
    if problems:
        c.inconclusive.append("cff did not generate code for the rendered corpus (%s): %s" % (problems[0][1], problems[0][2][-300:]))
        return 0
    binary, err = build_runner(c, root, race)
    if binary is None:
        viol("C13", "generated code does not compile:\n" + err[-2000:], dict(kind="gen-corpus", seed_off=seed_off, nflow=nflow, npar=npar))
        # a user variable named like an identifier of the generated code that the compiler finds unused, or used as
        # something else, has been captured or shadowed by the generated one (C15, last clause)
        for nm in sorted({m.group(1) or m.group(2) for m in re.finditer(r"declared and not used: (\w+)|invalid argument: index (\w+) \(variable of type", err)}):
            if nm in render.GEN_NAMES:
                viol("C15", "the user variable %s of an argument expression, named like an identifier of the generated code, is captured or "
                     "shadowed by it (the output does not compile):\n%s" % (nm, err[-1200:]),
                     dict(kind="gen-corpus", seed_off=seed_off, nflow=nflow, npar=npar))
                break
        # go on with the programs whose files do compile: what they do is still to be judged
        for attempt in range(8):
            badfiles = set()
            # (positions redirected by a //line header name no real file: all files of the package that carry one)
            for m in re.finditer(r"(?m)^templates/(\w+)_tmpl\.go:\d+", err):
                for f in os.listdir(os.path.join(root, m.group(1))) if os.path.isdir(os.path.join(root, m.group(1))) else []:
                    if f.endswith(".go") and not f.endswith("_gen.go") and "//line templates/" in open(os.path.join(root, m.group(1), f)).read():
                        badfiles.add((m.group(1), f[:-3]))
            for m in re.finditer(r"(?m)^(?:(\w+)/)?([\w.]+?)(?:_gen)?\.go:\d+", err):
                for pkg in pk:          # positions may name the source file (line directives) and omit the directory
                    if (m.group(1) in (None, pkg)) and os.path.exists(os.path.join(root, pkg, m.group(2) + ".go")):
                        badfiles.add((pkg, m.group(2)))
            if not badfiles:
                break
            for pkg, stem in badfiles:
                for f in (stem + ".go", stem + "_gen.go"):
                    if os.path.exists(os.path.join(root, pkg, f)):
                        os.remove(os.path.join(root, pkg, f))
                pk[pkg] = [p for p in pk[pkg] if p.get("file") != stem + ".go"]
            for pkg in pk:
                render.write_registry(root, pkg, pk[pkg])
            left = {p["name"] for ps in pk.values() for p in ps}
            jobs = [j for j in jobs if j["prog"] in left]
            with open(os.path.join(root, "scen.ndjson"), "w") as f:
                f.write("".join(json.dumps(j) + "\n" for j in jobs))
            byname = {p["name"]: p for ps in pk.values() for p in ps}
            binary, err = build_runner(c, root, race)
            if binary is not None:
                break
        if binary is None:
            c.inconclusive.append("generated code does not compile: " + err[-400:])
            return 0
        c.notes.append("files whose generated code does not compile were left out; %d programs remain" % len(byname))
    c.log("executing %d scenarios" % len(jobs))
    env = dict(GOENV, GORACE="halt_on_error=0 exitcode=66") if race else None
    trace, r, last = execute(c, binary, root, env=env)
    text = r.stdout + r.stderr
    if race:
        # once more without the event log and without any counter shared with the runner: the log's mutex and
        # the runner's polling would order the caller's accesses before the workers' and hide races between the
        # directive's own goroutines (e.g. the deferred TaskSkipped sweep against a task still running)
        _, rb, _ = execute(c, binary, root, name="bare", env=env, extra=["-bare"])
        text += rb.stdout + rb.stderr
        c.cov["evaluations"] += len(jobs)
        for rep in text.split("WARNING: DATA RACE")[1:]:
            rep = rep.split("==================")[0]
            if "go.uber.org/cff" in rep or "vgen/" in rep:
                viol("C12", "race detector report while executing generated code:\n" + rep[:1500],
                            dict(kind="race-gen", seed_off=seed_off, report=rep[:5000]))
    if r.returncode not in (0, 66):
        job = next((j for j in jobs if j["exec"] == last), None)
        viol("C04", "the process executing generated code died (exit %d) during execution %s:\n%s" % (r.returncode, last, text[-1500:]),
                    dict(kind="gen-exec", program=byname.get(job["prog"]) if job else None, job=job))
        c.inconclusive.append("runner died: " + text[-300:])
        return 0
    viols, nexec = validate(c, trace, "t%d%s" % (seed_off, "" if mode == "base" else "-" + mode))
    if info is not None:
        info.update(trace=trace)
    c.cov["traces_validated_against_impl"] += nexec
    c.cov["evaluations"] += nexec
    c.cov["programs"] = c.cov.get("programs", 0) + len(byname)
    if len(c.cov["samples"]) < 3:
        p = next(iter(byname.values()))
        c.cov["samples"].append(dict(program={k: v for k, v in p.items() if k != "style"}, scenario=jobs[0]["sc"]))
    if model_traces:
        # the same executions against the transcription of the templates itself (whatever the generation mode:
        # source-map and modifier code must behave like the base templates, C20)
        for module, d, lim in (("FlowTrace", "flow", model_traces), ("ParallelTrace", "parallel", model_traces // 3)):
            acc, rej = validate_model_trace(c, trace, "t%d" % seed_off, module, d, lim)
            c.cov["model_traces_accepted"] = c.cov.get("model_traces_accepted", 0) + acc
            c.cov["traces_validated_against_impl"] += acc
            for x in rej:
                c.inconclusive.append("MODEL-MISMATCH: %s does not accept execution %s of program %s (the generated code no "
                                      "longer behaves like the transcribed templates)" % (module[:-5] + ".tla", x["exec"], x["prog"]["name"]))
    jobby = {j["exec"]: j for j in jobs}
    for ex, stamp, prop, what in viols:
        job = jobby.get(ex // 100)
        if prop in ("HARNESS", "INCONCLUSIVE"):
            c.inconclusive.append("execution %s stamp %s: %s" % (ex, stamp, what))
            continue
        viol(prop, "%s (program %s, execution %s, event %s)" % (what, job["prog"] if job else "?", ex, stamp),
                    dict(kind="gen-exec", program=byname.get(job["prog"]) if job else None, job=job, mode=mode))
    return nexec


# ------------------------------------------------------------------ generator-level helpers
import hashlib, glob


def snapshot(root):
    """sha256 of every regular file under root."""
    out = {}
    for dp, dn, fn in os.walk(root):
        for f in fn:
            p = os.path.join(dp, f)
            with open(p, "rb") as fh:
                out[os.path.relpath(p, root)] = hashlib.sha256(fh.read()).hexdigest()
    return out


def src_files(root, pkg):
    d = os.path.join(root, pkg)
    return sorted(f for f in os.listdir(d) if f.endswith(".go") and f != "reg.go" and not f.endswith("_gen.go")
                  and not f.endswith("_gen_test.go") and not f.endswith("_out.go"))


def gen_name(f):
    return f[:-8] + "_gen_test.go" if f.endswith("_test.go") else f[:-3] + "_gen.go"


def gendiff(c, tool, root, pkg):
    args = []
    for f in src_files(root, pkg):
        g = os.path.join(root, pkg, gen_name(f))
        if os.path.exists(g):
            args += [os.path.join(root, pkg, f), g]
    r = subprocess.run([tool] + args, capture_output=True, text=True, timeout=600)
    if r.returncode != 0:
        raise Inconclusive("gendiff failed: " + r.stderr[-500:])
    return json.loads(r.stdout)


def typecheck(c, root, tags=None):
    """Type-checks the module without the cff tag (go vet runs the type checker on every package)."""
    cmd = ["go", "build"] + (["-tags", tags] if tags else []) + ["./..."]
    r = subprocess.run(cmd, cwd=root, env=GOENV, capture_output=True, text=True, timeout=900)
    return r.returncode == 0, (r.stdout + r.stderr)[-3000:]


# ------------------------------------------------------------------ the templates' transcription, model-checked
def spec_directive(c, flows, pars, name="dir", concs=(1, 2), cancel=True, outs=("ok", "err", "panic"), timeout=3000):
    """TLC on Flow.tla / Parallel.tla (the templates transcribed step by step, driving the monitor
    DirSys) for the given abstract programs: every outcome, schedule, concurrency value and
    cancellation instant; NoViolation and termination (deadlock check)."""
    res = []
    for kind, progs, module in (("flow", flows, "Flow"), ("par", pars, "Parallel")):
        if not progs:
            continue
        path = os.path.join(c.scratch, "%s-%s.ndjson" % (name, kind))
        with open(path, "w") as f:
            for p in progs:
                if not p.get("nargsexpr"):
                    render.render_program(p)
                f.write(json.dumps({k: v for k, v in p.items() if k != "style"}) + "\n")
        cfg = ('CONSTANTS ProgFile = "%s"  Concs = {%s}  CANCEL = %s%s\nSPECIFICATION Spec\nINVARIANTS NoViolation%s\n' %
               (path, ", ".join(str(x) for x in concs), str(cancel).upper(),
                ("  OUTS = {%s}" % ", ".join('"%s"' % o for o in outs)) if module == "Parallel" else "",
                " ResultsUntouched" if module == "Flow" else ""))
        c.log("TLC %s.tla on %d programs" % (module, len(progs)))
        res.append(c.tlc(module, cfg, "%s-%s" % (name, kind), workers=16, timeout=timeout))
    return res


def small_programs(c, nflow, npar, max_tasks=3, max_insts=4, seed_off=900):
    rng = random.Random(c.seed * 977 + seed_off)
    flows = [render.gen_flow(rng, "F%d" % i, max_tasks=max_tasks) for i in range(1, nflow + 1)]
    pars = []
    while len(pars) < npar:
        p = render.gen_parallel(rng, "P%d" % (len(pars) + 1))
        if 1 <= len(render.insts(p)) <= max_insts:
            pars.append(p)
    return flows, pars


# ------------------------------------------------------------------ the tool as a file-system state machine (GenPipeline.tla)
class GenLog:
    """Records invocations of the real cff as events for spec/GenPipeline.tla (via GenTrace.tla)."""

    def __init__(self, c, name):
        self.c, self.name, self.events = c, name, []

    @staticmethod
    def nhash(path):
        with open(path, "rb") as f:
            b = f.read()
        return hashlib.sha256(b.replace(os.path.basename(path).encode(), b"@OUT@")).hexdigest()[:16]

    def run(self, cff, root, pkg, mode="base", extra=(), files=None, alt=None, expectok=True, typecheck=False, scan_tool=None, timeout=600, stale=None):
        """One invocation.  files: None = the whole package, else the list of source files given with -file;
        alt: {file: output path relative to the package} for -file=IN=OUT.  Returns the event."""
        d = os.path.join(root, pkg)
        srcs = src_files(root, pkg)
        selected = list(files) if files is not None else srcs
        alt = alt or {}
        outputs = [os.path.join(pkg, alt.get(f, gen_name(f))) for f in selected]
        for o in outputs:
            po = os.path.join(root, o)
            if stale is None:                  # fresh run: the outputs do not exist beforehand
                if os.path.exists(po):
                    os.remove(po)
            elif os.path.exists(po) and stale != "same":
                # the run meets an older output: the last one plus trailing declarations, or only its head
                text = open(po).read()
                if stale == "longer":
                    text += "\nfunc vStaleTail%d() int { return %d }\n" % (len(self.events), len(self.events))
                else:
                    k = text.find("\nimport")
                    text = text[:k + 1] if k > 0 else text[:len(text) // 2]
                open(po, "w").write(text)
        before = snapshot(root)
        cmd = [cff, "-quiet"] + (["-genmode", mode] if mode != "base" else []) + list(extra)
        if files is not None:
            cmd += ["-file=%s%s" % (f, ("=" + os.path.join(d, alt[f])) if f in alt else "") for f in files]
        cmd.append("vgen/" + pkg)
        r = subprocess.run(cmd, cwd=root, env=GOENV, capture_output=True, text=True, timeout=timeout)
        text = r.stdout + r.stderr
        after = snapshot(root)
        written = sorted(p for p in after if before.get(p) != after[p])
        deleted = sorted(p for p in before if p not in after)
        diag = sorted({os.path.basename(m.group(1)) for m in re.finditer(r"([A-Za-z0-9_./-]+\.go):\d+:\d+: ", text)})
        ev = dict(ev="run", id=len(self.events) + 1, pkg=pkg, mode=mode, flags=" ".join(extra), selected=selected, outputs=outputs,
                  expectok=expectok, rc=r.returncode, crashed=(("panic:" in text or "fatal error:" in text) and "goroutine " in text), diagfiles=diag,
                  written=[[p, self.nhash(os.path.join(root, p))] for p in written], deleted=deleted, fresh=stale is None, stale=stale or "",
                  final=[self.nhash(os.path.join(root, o)) if os.path.exists(os.path.join(root, o)) else "" for o in outputs],
                  typechecks="skipped", surviving=0, stderr=text[-600:])
        if r.returncode == 0 and typecheck:
            ok, err = typecheck_pkg(self.c, root, pkg)
            ev["typechecks"] = "yes" if ok else "no"
            if not ok:
                ev["stderr"] = err[-900:]
        if r.returncode == 0 and scan_tool:
            ev["surviving"] = sum(1 for f in gendiff(self.c, scan_tool, root, pkg) if f["prop"] == "C13")
        self.events.append(ev)
        return ev

    def judge(self, label=""):
        """Feeds the events to the monitor; files what it recorded.  Returns number of runs."""
        c = self.c
        if not self.events:
            return 0
        path = os.path.join(c.scratch, "gen-%s.ndjson" % self.name)
        with open(path, "w") as f:
            for e in self.events:
                f.write(json.dumps({k: v for k, v in e.items() if k != "stderr"}) + "\n")
        cfg = 'CONSTANTS TraceFile = "%s"\nSPECIFICATION TSpec\nPOSTCONDITION Consumed\nCHECK_DEADLOCK FALSE\n' % path
        r = c.tlc("GenTrace", cfg, "gen-" + self.name, workers=1, timeout=3000)
        m = re.search(r'<<"TRACE-DONE", (\d+), (\d+), (\d+), (".*")>>', r["output"])
        if not m or int(m.group(1)) != len(self.events):
            raise Inconclusive("generator trace %s not consumed completely" % self.name)
        byid = {e["id"]: e for e in self.events}
        for rid, prop, what in json.loads(json.loads(m.group(4))):
            e = byid.get(rid, {})
            c.violation(prop, "%s (%s package %s, mode %s %s, files %s)%s" % (what, label, e.get("pkg"), e.get("mode"), e.get("flags"),
                        (e.get("selected") or [])[:3], ("\n" + e.get("stderr", "")[-700:]) if prop in ("C13", "C14") else ""),
                        dict(kind="gen-run", event={k: v for k, v in e.items() if k not in ("written",)}))
        c.cov["traces_validated_against_impl"] += len(self.events)
        c.cov["generator_functions_learnt"] = c.cov.get("generator_functions_learnt", 0) + int(m.group(3))
        return len(self.events)


def typecheck_pkg(c, root, pkg):
    """Type-checks one package of the rendered module without the cff tag."""
    r = subprocess.run(["go", "build", "./%s/" % pkg], cwd=root, env=GOENV, capture_output=True, text=True, timeout=900)
    return r.returncode == 0, (r.stdout + r.stderr)[-3000:]


# ------------------------------------------------------------------ recorded executions against Flow.tla itself
KEEP = ("ev", "u", "idx", "k", "toks", "out", "kind", "errs", "leaf", "same")


def ninsts(prog):
    return sum(max(u["len"], 0) if u["kind"] in ("selem", "melem") else 1 for u in prog["units"])


def split_executions(trace, want_dir="flow", limit=None, seed=0, max_insts=6):
    """Splits the directive trace into executions and each execution's events by goroutine:
    list 1 = the caller, then one list per other goroutine, last the cancellation stamps."""
    execs, cur = [], None
    for l in open(trace):
        e = json.loads(l)
        if e["ev"] == "reset":
            cur = dict(exec=e["exec"], prog=e["prog"], conc=e["sc"]["effconc"], coe=e["sc"]["effcoe"], caller=e["g"], evs=[], bad=False)
            execs.append(cur)
            continue
        if cur is None:
            continue
        if e["ev"] in ("hang", "leak", "slow", "propagated"):
            cur["bad"] = True
        cur["evs"].append(e)
    out = []
    for x in execs:
        if x["bad"] or x["prog"]["dir"] != want_dir or x["prog"].get("big") or ninsts(x["prog"]) > max_insts:
            continue        # the interleaving search grows quickly with the number of independent jobs
        lists, order = {}, []
        for e in x["evs"]:
            if e["ev"] in ("over", "capacity", "info", "notprompt"):
                continue
            g = "env" if e["ev"] in ("cancel_begin", "cancel") else e["g"]
            if g not in lists:
                lists[g] = []
                order.append(g)
            lists[g].append({k: e[k] for k in KEEP})
        gs = [x["caller"]] + [g for g in order if g not in (x["caller"], "env")] + (["env"] if "env" in lists else [])
        out.append(dict(exec=x["exec"], prog=x["prog"], conc=x["conc"], coe=x["coe"], lists=[lists.get(g, []) for g in gs]))
    if limit and len(out) > limit:
        out = random.Random(seed).sample(out, limit)
    return out


def validate_model_trace(c, trace, name, module="FlowTrace", want_dir="flow", limit=400, chunk=450):
    """TLC searches, per execution, an interleaving of the per-goroutine event lists that is a behaviour of
    Flow.tla / Parallel.tla.  Executions are concatenated (TReset) in chunks small enough for TLC's limit on the
    length of a behaviour.  Returns (accepted, rejected executions)."""
    allx = split_executions(trace, want_dir, limit, c.seed)
    accepted, rejected = 0, []
    for ci in range(0, len(allx), chunk):
        xs = allx[ci:ci + chunk]
        while xs and len(rejected) < 3:
            path = os.path.join(c.scratch, "%s-%s-%d.ndjson" % (module, name, ci))
            with open(path, "w") as f:
                for x in xs:
                    f.write(json.dumps(x) + "\n")
            cfg = ('CONSTANTS TraceFile = "%s"  ProgFile = "%s"  Concs = {1}  CANCEL = TRUE%s\nSPECIFICATION TSpec\nVIEW TView\nCHECK_DEADLOCK FALSE\n'
                   % (path, path, '  OUTS = {"ok", "err", "panic"}' if module == "ParallelTrace" else ""))
            r = c.tlc(module, cfg, "%s-%s-%d" % (module.lower(), name, ci), workers=16, timeout=600)
            acc = sorted(set(int(a) for a in re.findall(r'<<"TRACE-ACCEPTED", (\d+), \d+>>', r["output"])))
            n = 0
            while n < len(acc) and acc[n] == n + 1:
                n += 1
            accepted += n
            if n == len(xs):
                break
            rejected.append(xs[n])
            xs = xs[n + 1:]
    return accepted, rejected


# ------------------------------------------------------------------ histories of spec/GenFS.tla replayed on the real tool
HP_HEAD = "//go:build cff\n\npackage hp\n\nimport (\n\t\"context\"\n%s\n\t\"go.uber.org/cff\"\n)\n\n"
HP_FILES = {
    "a.go": (HP_HEAD % "" +
             "// A1 and A2 are values of FlowA.\ntype A1 struct{ N int }\n\n// A2 is its result.\ntype A2 struct{ N int }\n\n"
             "// FlowA doubles its input plus one.\nfunc FlowA(ctx context.Context, n int) (A2, error) {\n\tvar r A2\n\terr := cff.Flow(ctx,\n"
             "\t\tcff.Params(n),\n\t\tcff.Results(&r),\n\t\tcff.Task(func(n int) A1 { return A1{n + 1} }),\n"
             "\t\tcff.Task(func(a A1) (A2, error) { return A2{a.N * 2}, nil }),\n\t)\n\treturn r, err\n}\n",
             "\n// helperA is only in version 2.\nfunc helperA(x int) int { return x + 41 }\n", None),
    "b.go": (HP_HEAD % "" +
             "// SumB adds up a slice in parallel.\nfunc SumB(ctx context.Context, xs []int) (int, error) {\n\tout := make([]int, len(xs))\n"
             "\terr := cff.Parallel(ctx,\n\t\tcff.Concurrency(2),\n\t\tcff.Slice(func(i int, x int) error { out[i] = x * @K@; return nil }, xs),\n\t)\n"
             "\ts := 0\n\tfor _, v := range out {\n\t\ts += v\n\t}\n\treturn s, err\n}\n",
             "\n// helperB is only in version 2.\nfunc helperB() string { return \"b\" }\n", ("@K@", "3", "7")),
    "t_test.go": (HP_HEAD % "\t\"testing\"\n" +
                  "// T1 is a value of the flow under test.\ntype T1 struct{ S string }\n\nfunc TestFlowT(t *testing.T) {\n\tvar r T1\n"
                  "\terr := cff.Flow(context.Background(),\n\t\tcff.Results(&r),\n\t\tcff.Task(func() T1 { return T1{\"t\"} }),\n\t)\n"
                  "\tif err != nil || r.S != \"t\" {\n\t\tt.Fatal(r, err)\n\t}\n}\n",
                  "\n// helperT is only in version 2.\nfunc helperT() int { return 7 }\n", None),
}


def hp_source(f, v):
    base, tail, sub = HP_FILES[f]
    if sub:
        base = base.replace(sub[0], sub[1] if v == 1 else sub[2])
    return base + (tail if v == 2 else "")


def hp_write(root, srcs):
    d = os.path.join(root, "hp")
    os.makedirs(d, exist_ok=True)
    for f in HP_FILES:
        with open(os.path.join(d, f), "w") as fh:
            fh.write(hp_source(f, srcs[f]))
    with open(os.path.join(d, "plain.go"), "w") as fh:
        fh.write("package hp\n\n// Plain is a file without directives.\nfunc Plain() int { return 1 }\n")


def history_replay(c, cff, n, depth, name="genfs"):
    """Behaviours of spec/GenFS.tla (TLC's simulator) performed step by step on a real package with the real cff;
    after every step every output path is compared with the model's `out` ("gen" contents against a reference
    generation from scratch of the same sources).  Files C17 / C16 violations.  Returns the number of steps."""
    cfgtext = ('CONSTANTS Files = {"a.go", "b.go", "t_test.go"}  Modes = {"base", "source-map"}  Depth = %d\n'
               'SPECIFICATION Spec\nINVARIANTS %s\nCHECK_DEADLOCK FALSE\n')
    # the contract's consequences, exhaustively for short histories
    c.tlc("GenFS", cfgtext % (3, "FunctionOfInput FreshAfterAll"), name + "-mc", workers=8, timeout=600)
    r = c.tlc("GenFS", cfgtext % (depth, "FunctionOfInput"), name + "-sim", workers=1, timeout=600,
              simulate="num=%d" % n, extra=["-depth", str(depth + 3), "-seed", str(c.seed)])
    hists, seen = [], set()
    for l in r["output"].splitlines():
        m = re.match(r'<<"HISTORY", (".*")>>\s*$', l)
        if m and m.group(1) not in seen:
            seen.add(m.group(1))
            hists.append(json.loads(json.loads(m.group(1))))
    if not hists:
        raise Inconclusive("TLC simulation of GenFS produced no histories")
    root = os.path.join(c.scratch, name)
    render.write_module(root, {})
    refroot = os.path.join(c.scratch, name + "-ref")
    render.write_module(refroot, {})
    refs = {}
    nh = GenLog.nhash

    def run_cff(rt, mode, files=(), alt=""):
        cmd = [cff, "-quiet"] + (["-genmode", mode] if mode != "base" else [])
        for f in files:
            cmd.append("-file=%s%s" % (f, ("=" + os.path.join(rt, "hp", alt)) if alt else ""))
        cmd.append("vgen/hp")
        return subprocess.run(cmd, cwd=rt, env=GOENV, capture_output=True, text=True, timeout=300)

    def ref(f, srcs, mode):
        key = (tuple(sorted(srcs.items())), mode)
        if key not in refs:
            shutil.rmtree(os.path.join(refroot, "hp"), ignore_errors=True)
            hp_write(refroot, srcs)
            rr = run_cff(refroot, mode)
            if rr.returncode != 0:
                raise Inconclusive("reference generation failed: " + (rr.stdout + rr.stderr)[-400:])
            refs[key] = {g: nh(os.path.join(refroot, "hp", gen_name(g))) for g in HP_FILES}
        return refs[key][f]

    real = lambda p: os.path.join(root, "hp", "alt_out.go" if p == "alt_out.go" else gen_name(p.split(">")[0]))
    steps = 0
    for hi, hist in enumerate(hists):
        shutil.rmtree(os.path.join(root, "hp"), ignore_errors=True)
        srcs = {f: 1 for f in HP_FILES}
        hp_write(root, srcs)
        planted = {}
        for si, st in enumerate(hist):
            steps += 1
            before = snapshot(os.path.join(root, "hp"))
            where = dict(kind="genfs-history", history=[{k: v for k, v in h.items() if k not in ("post", "srcs")} for h in hist[:si + 1]])
            if st["op"] == "edit":
                srcs[st["file"]] = 3 - srcs[st["file"]]
                hp_write(root, srcs)
            elif st["op"] == "remove":
                os.remove(real(st["path"]))
                planted.pop(st["path"], None)
            elif st["op"] == "plant":
                text = open(real(st["path"])).read()
                if st["kind"] == "longer":
                    text += "\nfunc vOld%d() int { return %d }\n" % (steps, steps)
                else:
                    k = text.find("\nimport")
                    text = text[:k + 1] if k > 0 else text[:len(text) // 2]
                open(real(st["path"]), "w").write(text)
                planted[st["path"]] = nh(real(st["path"]))
            else:
                rr = run_cff(root, st["mode"], st["files"], st["alt"])
                if rr.returncode != 0:
                    c.violation("C14", "cff rejected a well-formed package (GenFS history %d step %d): %s" % (hi, si, (rr.stdout + rr.stderr)[-300:]), where)
                    break
                for p in list(planted):
                    if st["post"][p][0] != "old":
                        planted.pop(p)
            # the directory against the model
            bad = False
            for p, want in st["post"].items():
                rp = real(p)
                have = nh(rp) if os.path.exists(rp) else None
                if want[0] == "absent":
                    ok, prop, what = have is None, "C16", "a path that is not a documented output of this invocation was written"
                elif want[0] == "gen":
                    ok = have is not None and have == ref(want[1], want[2], want[3])
                    prop, what = ("C16", "documented output path missing after a successful run") if have is None else \
                                 ("C17", "the output is not what a generation from scratch of the same sources writes: it depends on the history")
                else:
                    ok, prop, what = have == planted.get(p), "C16", "a file that is not an output of this invocation was modified"
                if not ok:
                    bad = True
                    c.violation(prop, "%s: %s (GenFS history %d, step %d: %s)" % (what, os.path.basename(rp), hi, si + 1,
                                json.dumps({k: v for k, v in st.items() if k not in ("post", "srcs")})), where)
            after = snapshot(os.path.join(root, "hp"))
            outs = {os.path.basename(real(p)) for p in st["post"]}
            stray = sorted(p for p in set(before) | set(after) if before.get(p) != after.get(p) and p not in outs and st["op"] == "gen")
            if stray:
                bad = True
                c.violation("C16", "cff touched %s, which is no output path (GenFS history %d, step %d)" % (stray, hi, si + 1), where)
            if bad:
                break
    c.cov["genfs_histories"] = c.cov.get("genfs_histories", 0) + len(hists)
    c.cov["genfs_steps"] = c.cov.get("genfs_steps", 0) + steps
    c.cov["traces_validated_against_impl"] = c.cov.get("traces_validated_against_impl", 0) + len(hists)
    return steps
