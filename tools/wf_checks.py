"""C14: the validator of cff against spec/FlowWF.tla.

Flow graphs come from two sources, both judged by TLC:
  * every graph of a small scope, enumerated by TLC itself (FlowWFEnum.tla, invariant Dump);
  * seeded random well-formed graphs of 3-6 tasks and EVERY single-defect mutation of them
    (drop a provider, duplicate one, add a back edge at any distance, add an unused param /
    output, strip Invoke), judged by FlowWFEval.tla.
Each graph is rendered to a cff.Flow in Go source (options in graph order, and for well-formed
graphs also in shuffled orders), the real cff is run, and its verdict per flow -- taken from the
positions of its diagnostics -- is compared with FlowWF!IllFormed.

Slice / Map assignability: SliceMapTypes.tla enumerates (element, parameter) type pairs of a small
type lattice with the verdict Assignable(elem, param) of the Go specification; each pair is
rendered as a cff.Parallel with a Slice, a Map key and a Map value position."""
import json, os, random, re, shutil, subprocess
from vlib import Inconclusive, GOENV, REPO


# ------------------------------------------------------------------ graphs from TLC
def enum_graphs(c, k, maxt, maxin, maxpin, dups=True, name="wfenum", workers=1, dump=True, timeout=3000):
    cfg = ("CONSTANTS K = %d MaxT = %d MaxIn = %d MaxPin = %d DUPS = %s DUMP = %s\nSPECIFICATION Spec\n"
           "INVARIANTS AgreeInv CycleAlgoSound%s\nCHECK_DEADLOCK FALSE\n" %
           (k, maxt, maxin, maxpin, str(dups).upper(), str(dump).upper(), " Dump" if dump else ""))
    r = c.tlc("FlowWFEnum", cfg, name, workers=workers, timeout=timeout)
    out = []
    if dump:
        for l in r["output"].splitlines():
            m = re.match(r'^<<"GRAPH", (".*")>>$', l)
            if m:
                out.append(json.loads(json.loads(m.group(1))))
        if not out:
            raise Inconclusive("FlowWFEnum printed no graphs")
    return out, r


def eval_graphs(c, graphs, name="wfeval"):
    """graphs: list of dict(id=..., g=...). Returns {id: dict(ill, rej, defects)} as judged by TLC."""
    path = os.path.join(c.scratch, name + ".ndjson")
    with open(path, "w") as f:
        for g in graphs:
            f.write(json.dumps(g) + "\n")
    cfg = 'CONSTANTS GraphFile = "%s"\nSPECIFICATION Spec\nINVARIANT AgreeInv\nPOSTCONDITION Consumed\nCHECK_DEADLOCK FALSE\n' % path
    r = c.tlc("FlowWFEval", cfg, name, workers=1, timeout=3000)
    out = {}
    for l in r["output"].splitlines():
        m = re.match(r'^<<"VERDICT", (\d+), (TRUE|FALSE), (TRUE|FALSE), (".*")>>$', l)
        if m:
            out[int(m.group(1))] = dict(ill=m.group(2) == "TRUE", rej=m.group(3) == "TRUE", defects=json.loads(json.loads(m.group(4))))
    if len(out) != len(graphs):
        raise Inconclusive("FlowWFEval judged %d of %d graphs" % (len(out), len(graphs)))
    return out


# ------------------------------------------------------------------ random graphs and mutations
def gen_wf_graph(rng, ntasks, maxk=9):
    """A well-formed graph (by construction; TLC confirms)."""
    params, tasks, nty = [], [], 0
    avail, consumed = [], set()
    for _ in range(rng.choice([0, 1, 1, 2])):
        nty += 1
        params.append(nty)
        avail.append(nty)
    for t in range(ntasks):
        ins = rng.sample(avail, min(len(avail), rng.choice([0, 1, 1, 2, 3])))
        nout = rng.choice([0, 1, 1, 1, 2]) if nty < maxk - 2 else rng.choice([0, 1])
        outs = []
        for _ in range(nout):
            nty += 1
            outs.append(nty)
        haspred = bool(avail) and rng.random() < 0.35 or rng.random() < 0.08
        pins = rng.sample(avail, min(len(avail), rng.choice([0, 1, 1, 2]))) if haspred else []
        consumed.update(ins)
        consumed.update(pins)
        tasks.append(dict(ins=ins, outs=outs, invoke=not outs, haspred=haspred, pins=pins))
        avail += outs
    results = []
    for ty in avail:
        if ty in consumed:
            if ty not in params and rng.random() < 0.3:
                results.append(ty)
        elif ty in params:
            rng.choice(tasks)["ins"].append(ty)
        else:
            results.append(ty)
    rng.shuffle(results)
    # listing order is free: shuffle the tasks (the graph stays the same graph)
    rng.shuffle(tasks)
    return dict(params=params, results=results, tasks=tasks)


def mutations(g, rng):
    """Every single-defect mutation of g (as (label, graph))."""
    out = []
    cp = lambda: json.loads(json.dumps(g))
    allty = sorted(set(g["params"]) | {t for tk in g["tasks"] for t in tk["outs"]})
    fresh = max(allty + [0]) + 1
    nt = len(g["tasks"])
    # drop a provider: remove a param / a task output that somebody consumes
    for i, ty in enumerate(g["params"]):
        m = cp(); m["params"].pop(i); out.append(("drop-param-%d" % ty, m))
    for ti, tk in enumerate(g["tasks"]):
        for oi, ty in enumerate(tk["outs"]):
            m = cp(); m["tasks"][ti]["outs"].pop(oi)
            if not m["tasks"][ti]["outs"]:
                m["tasks"][ti]["invoke"] = True       # keep it a single defect
            out.append(("drop-out-%d.%d" % (ti, ty), m))
    # duplicate a provider: by Params twice, by a second task, by Params and a task
    for ty in g["params"]:
        m = cp(); m["params"].append(ty); out.append(("dup-param-%d" % ty, m))
        for ti in range(nt):
            m = cp()
            if m["tasks"][ti]["invoke"]:
                m["tasks"][ti]["invoke"] = False
            m["tasks"][ti]["outs"].append(ty); out.append(("dup-param-task-%d.%d" % (ti, ty), m))
    for ti, tk in enumerate(g["tasks"]):
        for ty in tk["outs"]:
            for tj in range(nt):
                if tj != ti:
                    m = cp()
                    if m["tasks"][tj]["invoke"]:
                        m["tasks"][tj]["invoke"] = False
                    m["tasks"][tj]["outs"].append(ty); out.append(("dup-out-%d.%d.%d" % (ti, tj, ty), m))
            m = cp(); m["params"].append(ty); out.append(("dup-out-param-%d" % ty, m))
    # back edges at any distance: a task (or its predicate) consumes the output of any task,
    # including itself and everything downstream
    for ti, tk in enumerate(g["tasks"]):
        for tj, tl in enumerate(g["tasks"]):
            for ty in tl["outs"]:
                if ty not in tk["ins"]:
                    m = cp(); m["tasks"][ti]["ins"].append(ty); out.append(("edge-%d<-%d.%d" % (ti, tj, ty), m))
                if tk["haspred"] and ty not in tk["pins"]:
                    m = cp(); m["tasks"][ti]["pins"].append(ty); out.append(("pedge-%d<-%d.%d" % (ti, tj, ty), m))
    # unused param / unused output / consumer of a type nobody provides
    m = cp(); m["params"].append(fresh); out.append(("unused-param", m))
    for ti, tk in enumerate(g["tasks"]):
        m = cp()
        if m["tasks"][ti]["invoke"]:
            m["tasks"][ti]["invoke"] = False
        m["tasks"][ti]["outs"].append(fresh); out.append(("unused-out-%d" % ti, m))
        m = cp(); m["tasks"][ti]["ins"].append(fresh); out.append(("missing-in-%d" % ti, m))
        if tk["haspred"]:
            m = cp(); m["tasks"][ti]["pins"].append(fresh); out.append(("missing-pin-%d" % ti, m))
        if tk["invoke"]:
            m = cp(); m["tasks"][ti]["invoke"] = False; out.append(("strip-invoke-%d" % ti, m))
    m = cp(); m["results"].append(fresh); out.append(("missing-result", m))
    return out


# ------------------------------------------------------------------ rendering
SPELL = {"named": ("T%d", "T%d{}"), "slice": ("[]T%d", "[]T%d{}"), "ptr": ("*T%d", "&T%d{}"), "map": ("map[string]T%d", "map[string]T%d{}")}


def render_flow(name, g, order=None, maxk=0, spell=None):
    """One function holding one cff.Flow. order: permutation of option indices (None = graph order).
    spell: {type: kind}: how each value type is spelled (a named struct, or an unnamed slice / pointer / map
    type written out at every use: identical types, distinct type expressions)."""
    spell = spell or {}
    T = lambda ty: SPELL[spell.get(ty, "named")][0] % ty
    Z = lambda ty: SPELL[spell.get(ty, "named")][1] % ty
    lines = ["func %s(ctx context.Context) error {" % name]
    for ty in sorted(set(g["results"])):
        lines.append("\tvar r%d %s" % (ty, T(ty)))
    opts = []
    if g["params"]:
        opts.append("\t\tcff.Params(%s)," % ", ".join(Z(ty) for ty in g["params"]))
    if g["results"]:
        opts.append("\t\tcff.Results(%s)," % ", ".join("&r%d" % ty for ty in g["results"]))
    for tk in g["tasks"]:
        ins = ", ".join("a%d %s" % (i, T(ty)) for i, ty in enumerate(tk["ins"]))
        outs = [T(ty) for ty in tk["outs"]] + ["error"]
        ret = ", ".join([Z(ty) for ty in tk["outs"]] + ["nil"])
        sig = "(" + ", ".join(outs) + ")" if len(outs) > 1 else outs[0]
        s = "\t\tcff.Task(\n\t\t\tfunc(%s) %s { return %s },\n" % (ins, sig, ret)
        if tk["haspred"]:
            pins = ", ".join("a%d %s" % (i, T(ty)) for i, ty in enumerate(tk["pins"]))
            s += "\t\t\tcff.Predicate(func(%s) bool { return true }),\n" % pins
        if tk["invoke"]:
            s += "\t\t\tcff.Invoke(true),\n"
        s += "\t\t),"
        opts.append(s)
    if order:
        opts = [opts[i] for i in order]
    lines.append("\treturn cff.Flow(ctx,")
    lines += opts
    lines.append("\t)")
    lines.append("}")
    return "\n".join(lines) + "\n"


def nopts(g):
    return (1 if g["params"] else 0) + (1 if g["results"] else 0) + len(g["tasks"])


def write_pkg(root, pkg, files, maxk):
    """files: {filename: [(flowname, graph, order)]}. Returns {flowname: (file, first line, last line)}."""
    d = os.path.join(root, pkg)
    os.makedirs(d, exist_ok=True)
    where = {}
    first = True
    for fn, flows in files.items():
        head = "//go:build cff\n\npackage %s\n\nimport (\n\t\"context\"\n\n\t\"go.uber.org/cff\"\n)\n\nvar _ = context.Background\n\n" % pkg
        if first:
            head += "".join("type T%d struct{ _ [%d]byte }\n" % (i, i) for i in range(1, maxk + 1)) + "\n"
            first = False
        text = head
        line = text.count("\n") + 1
        for name, g, order in flows:
            srng = random.Random(hash(name) % (2 ** 31))
            spell = {ty: srng.choice(["named", "named", "slice", "ptr", "map"]) for ty in range(1, maxk + 1)}
            src = render_flow(name, g, order, spell=spell)
            n = src.count("\n")
            where[name] = (fn, line, line + n - 1)
            text += src + "\n"
            line += n + 1
        with open(os.path.join(d, fn), "w") as f:
            f.write(text)
    return where


def write_mod(root, mod="vwf"):
    os.makedirs(root, exist_ok=True)
    with open(os.path.join(root, "go.mod"), "w") as f:
        f.write("module %s\n\ngo 1.19\n\nrequire go.uber.org/cff v0.1.0\n\nreplace go.uber.org/cff => %s\n" % (mod, REPO))
    shutil.copy(REPO + "/internal/tests/go.sum", os.path.join(root, "go.sum"))


DIAG = re.compile(r"([A-Za-z0-9_./-]+\.go):(\d+):(\d+): (.*)")


def run_cff_pkg(cff, root, mod, pkg, timeout=1800):
    d = os.path.join(root, pkg)
    for f in os.listdir(d):
        if f.endswith("_gen.go"):
            os.remove(os.path.join(d, f))
    r = subprocess.run([cff, "%s/%s" % (mod, pkg)], cwd=root, env=GOENV, capture_output=True, text=True, timeout=timeout)
    text = r.stdout + r.stderr
    diags = {}
    for m in DIAG.finditer(text):
        diags.setdefault(os.path.basename(m.group(1)), []).append((int(m.group(2)), m.group(4)))
    return r.returncode, text, diags


def judge(c, cff, root, mod, pkg, where, expect, meta, label):
    """expect: {flowname: True if ill-formed}. Files hold either only well-formed or only ill-formed flows
    (named good*/bad*). Files violations in c; returns number of flows judged."""
    rc, text, diags = run_cff_pkg(cff, root, mod, pkg)
    if ("panic:" in text or "fatal error:" in text) and "goroutine " in text:
        c.violation("C13", "cff died with a Go panic on the %s corpus:\n%s" % (label, text[-1500:]), dict(kind="wf", label=label))
        if not any(expect.values()):
            # every flow of this package is well-formed: dying is not accepting them
            c.violation("C14", "cff did not accept a package of well-formed flows (%s): it died with a Go panic:\n%s" % (label, text[-800:]),
                        dict(kind="wf", label=label))
        c.notes.append("cff crashed on the %s corpus: its flows were not judged one by one" % label)
        return 0
    d = os.path.join(root, pkg)
    byfile = {}
    for name, (fn, a, b) in where.items():
        byfile.setdefault(fn, []).append(name)
    anybad = False
    for fn, names in byfile.items():
        gen = os.path.join(d, fn[:-3] + "_gen.go")
        fdiags = diags.get(fn, [])
        bad_file = any(expect[n] for n in names)
        anybad = anybad or bad_file
        for n in names:
            _, a, b = where[n]
            mine = [msg for (ln, msg) in fdiags if a <= ln <= b]
            if expect[n] and not mine:
                c.violation("C14", "cff accepted an ill-formed flow (%s; defects %s): no diagnostic for %s (%s:%d-%d)" %
                            (label, meta[n].get("defects"), n, fn, a, b), dict(kind="wf", label=label, graph=meta[n]))
            if not expect[n] and mine:
                c.violation("C14", "cff rejected a well-formed flow (%s): %s: %s" % (label, n, mine[0][:300]),
                            dict(kind="wf", label=label, graph=meta[n], diagnostic=mine[0][:500]))
        if bad_file:
            if os.path.exists(gen):
                c.violation("C14", "cff wrote %s although the file holds ill-formed flows (%s)" % (os.path.basename(gen), label),
                            dict(kind="wf-output", label=label, file=fn))
            if not fdiags and all(expect[n] for n in names):
                pass    # already reported per flow
        else:
            if not os.path.exists(gen) and not fdiags:
                c.violation("C14", "no output for %s, a file of well-formed flows, and no diagnostic (%s)" % (fn, label),
                            dict(kind="wf-output", label=label, file=fn))
    if anybad and rc == 0:
        c.violation("C14", "cff exited 0 although the package holds ill-formed flows (%s)" % label, dict(kind="wf-exit", label=label))
    if not anybad and rc != 0 and not diags:
        raise Inconclusive("cff failed on the well-formed %s corpus without diagnostics: %s" % (label, text[-600:]))
    return len(where)


def chunks(xs, n):
    for i in range(0, len(xs), n):
        yield xs[i:i + n]


def check_graphs(c, cff, items, label, per_file=150, shuffle_good=2):
    """items: list of (id, graph, ill, defects).  Renders, runs cff, judges."""
    rng = random.Random(c.seed * 7 + len(items))
    root = os.path.join(c.scratch, "vwf-" + label)
    write_mod(root)
    maxk = max([1] + [ty for _, g, _, _ in items for ty in g["params"] + g["results"] +
                      [t for tk in g["tasks"] for t in tk["ins"] + tk["outs"] + tk["pins"]]])
    good = [(i, g, d) for i, g, ill, d in items if not ill]
    bad = [(i, g, d) for i, g, ill, d in items if ill]
    total = 0
    for pkg, group, isbad in (("wfgood", good, False), ("wfbad", bad, True)):
        if not group:
            continue
        files, expect, meta = {}, {}, {}
        k = 0
        for fi, ch in enumerate(chunks(group, per_file)):
            flows = []
            for i, g, d in ch:
                variants = [None]
                if not isbad:
                    for _ in range(shuffle_good):
                        o = list(range(nopts(g)))
                        rng.shuffle(o)
                        variants.append(o)
                for vi, order in enumerate(variants):
                    name = "F%d_%d" % (i, vi)
                    flows.append((name, g, order))
                    expect[name] = isbad
                    meta[name] = dict(id=i, graph=g, defects=d, order=order)
            files["%s%d.go" % ("bad" if isbad else "good", fi)] = flows
        # some ill-formed flows alone in a file: the file must produce no output at all
        if isbad:
            for j, (i, g, d) in enumerate(rng.sample(group, min(len(group), 25))):
                name = "S%d" % i
                files["single%d.go" % j] = [(name, g, None)]
                expect[name] = True
                meta[name] = dict(id=i, graph=g, defects=d, order=None)
        where = write_pkg(root, pkg, files, maxk)
        total += judge(c, cff, root, "vwf", pkg, where, expect, meta, "%s/%s" % (label, pkg))
    shutil.rmtree(root, ignore_errors=True)
    return total


# ------------------------------------------------------------------ Slice / Map assignability
TYPE_DECLS = """type MyInt int

func (MyInt) String() string { return "" }

type OtherInt int
type Bytes []byte
type S1 struct{ X int }
type S2 struct{ X int }

func (S2) Read([]byte) (int, error) { return 0, nil }

var (
	_ bytes.Buffer
	_ io.Reader
	_ fmt.Stringer
)
"""


def sm_cases(c):
    r = c.tlc("SliceMapTypes", "SPECIFICATION Spec\nINVARIANT SaneInv\nCHECK_DEADLOCK FALSE\n", "slicemap", workers=1, timeout=600)
    m = re.search(r'<<"CASES", (".*")>>', r["output"])
    if not m:
        raise Inconclusive("SliceMapTypes printed no cases")
    cases = json.loads(json.loads(m.group(1)))
    cases.sort(key=lambda k: (k["pos"], k["v"], k["t"]))
    return cases


def render_par(name, case):
    v, t, pos = case["v"], case["t"], case["pos"]
    if pos == "selem":
        coll, fn, opt = "[]%s" % v, "func(v %s) error { return nil }" % t, "Slice"
    elif pos == "selemidx":
        coll, fn, opt = "[]%s" % v, "func(i int, v %s) error { return nil }" % t, "Slice"
    elif pos == "mkey":
        coll, fn, opt = "map[%s]int" % v, "func(k %s, v int) error { return nil }" % t, "Map"
    else:
        coll, fn, opt = "map[int]%s" % v, "func(k int, v %s) error { return nil }" % t, "Map"
    return ("func %s(ctx context.Context) error {\n\tvar c %s\n\treturn cff.Parallel(ctx,\n\t\tcff.%s(\n\t\t\t%s,\n\t\t\tc,\n\t\t),\n\t)\n}\n"
            % (name, coll, opt, fn))


def check_lattice_against_go(c, cases):
    """The expected verdicts are Go's assignability; make sure the TLA+ lattice says what the Go type
    checker says (a disagreement is a defect of the model, never of cff)."""
    root = os.path.join(c.scratch, "vlat")
    os.makedirs(os.path.join(root, "ok"), exist_ok=True)
    os.makedirs(os.path.join(root, "bad"), exist_ok=True)
    open(os.path.join(root, "go.mod"), "w").write("module vlat\n\ngo 1.19\n")
    head = "package p\n\nimport (\n\t\"bytes\"\n\t\"fmt\"\n\t\"io\"\n)\n\n" + TYPE_DECLS + "\n"
    pairs = sorted({(k["v"], k["t"], k["ok"]) for k in cases})
    ok = [p for p in pairs if p[2]]
    bad = [p for p in pairs if not p[2]]
    open(os.path.join(root, "ok", "ok.go"), "w").write(
        head + "".join("func ok%d() {\n\tvar v %s\n\tvar t %s = v\n\t_ = t\n}\n\n" % (i, v, t) for i, (v, t, _) in enumerate(ok)))
    text = head
    lines = {}
    for i, (v, t, _) in enumerate(bad):
        text += "func bad%d() {\n\tvar v %s\n" % (i, v)
        lines[text.count("\n") + 1] = (v, t)
        text += "\tvar t %s = v\n\t_ = t\n}\n\n" % t
    open(os.path.join(root, "bad", "bad.go"), "w").write(text)
    r = subprocess.run(["go", "build", "./ok/"], cwd=root, env=GOENV, capture_output=True, text=True, timeout=300)
    if r.returncode != 0:
        raise Inconclusive("SliceMapTypes.tla calls a pair assignable that Go refuses: " + r.stderr[:600])
    r = subprocess.run(["go", "build", "-gcflags=-e", "./bad/"], cwd=root, env=GOENV, capture_output=True, text=True, timeout=300)
    errlines = {int(m.group(1)) for m in re.finditer(r"bad\.go:(\d+):\d+: cannot use", r.stderr)}
    miss = [lines[l] for l in lines if l not in errlines]
    if miss:
        raise Inconclusive("SliceMapTypes.tla calls a pair non-assignable that Go accepts: %s" % miss[:5])
    shutil.rmtree(root, ignore_errors=True)
    return len(pairs)


def check_slicemap(c, cff):
    cases = sm_cases(c)
    check_lattice_against_go(c, cases)
    root = os.path.join(c.scratch, "vsm")
    write_mod(root, "vsm")
    total = 0
    for pkg, group in (("smgood", [k for k in cases if k["ok"]]), ("smbad", [k for k in cases if not k["ok"]])):
        d = os.path.join(root, pkg)
        os.makedirs(d, exist_ok=True)
        where, expect, meta = {}, {}, {}
        for fi, ch in enumerate(chunks(group, 80)):
            fn = "%s%d.go" % ("bad" if pkg == "smbad" else "good", fi)
            text = ("//go:build cff\n\npackage %s\n\nimport (\n\t\"bytes\"\n\t\"context\"\n\t\"fmt\"\n\t\"io\"\n\n\t\"go.uber.org/cff\"\n)\n\n" % pkg)
            if fi == 0:
                text += TYPE_DECLS + "\n"
            else:
                text += "var (\n\t_ bytes.Buffer\n\t_ io.Reader\n\t_ fmt.Stringer\n)\n\n"
            line = text.count("\n") + 1
            for j, case in enumerate(ch):
                name = "P%d_%d" % (fi, j)
                src = render_par(name, case)
                n = src.count("\n")
                where[name] = (fn, line, line + n - 1)
                expect[name] = not case["ok"]
                meta[name] = dict(case=case, defects=["not assignable"] if not case["ok"] else [])
                text += src + "\n"
                line += n + 1
            open(os.path.join(d, fn), "w").write(text)
        total += judge(c, cff, root, "vsm", pkg, where, expect, meta, "slicemap/" + pkg)
    shutil.rmtree(root, ignore_errors=True)
    return total, cases
