"""Shared machinery of the /verif checks: scratch space, building the harness from /repo's
working tree, running TLC, parsing its output, writing evidence, verdict bookkeeping."""
import json, os, re, shutil, subprocess, sys, tempfile, time, hashlib

VERIF = os.path.dirname(os.path.dirname(os.path.abspath(__file__)))
REPO = os.environ.get("VERIF_REPO", "/repo")   # the tree under verification (a scratch worktree when seeded changes are tried)
SPEC = os.path.join(VERIF, "spec")
HARNESS = os.path.join(VERIF, "harness")
OUTDIR = os.path.join(VERIF, "out")          # replay files and logs of the last runs (git-ignored)
GOENV = dict(os.environ, GOFLAGS="-mod=mod", GOPROXY="off", GOSUMDB="off", GOTOOLCHAIN="local",
             CGO_ENABLED=os.environ.get("CGO_ENABLED", "1"))


class Inconclusive(Exception):
    """The check could not decide (tool failure, model mismatch, timeout): exit status 2."""


class Ctx:
    """One run of one check."""

    def __init__(self, prop, tier, seed):
        self.prop, self.tier, self.seed = prop, tier, seed
        self.t0 = time.time()
        self.scratch = tempfile.mkdtemp(prefix="verif-%s-" % prop, dir=os.environ.get("VERIF_SCRATCH", "/tmp"))
        self.violations = []      # (property, what, replay path)
        self.known = []           # known-finding lines
        self.notes = []
        self.cov = dict(states=0, transitions=0, traces_validated_against_impl=0, samples=[],
                        tlc_runs=[], evaluations=0)
        self.assumptions = []
        self.inconclusive = []
        os.makedirs(OUTDIR, exist_ok=True)
        self.specdir = os.path.join(self.scratch, "spec")
        shutil.copytree(SPEC, self.specdir)

    @property
    def quick(self):
        return self.tier == "quick"

    def cleanup(self):
        shutil.rmtree(self.scratch, ignore_errors=True)

    def log(self, *a):
        print("[%s %s %6.1fs]" % (self.prop, self.tier, time.time() - self.t0), *a, flush=True)

    # ---------------------------------------------------------------- building
    def harness_dir(self):
        """The harness module; when another tree than /repo is verified, a copy whose go.mod points there."""
        if REPO == "/repo":
            return HARNESS
        d = os.path.join(self.scratch, "harness")
        if not os.path.exists(d):
            shutil.copytree(HARNESS, d)
            gm = os.path.join(d, "go.mod")
            s = open(gm).read().replace("=> /repo", "=> " + REPO)
            open(gm, "w").write(s)
        return d

    def build_go(self, pkg, name, tags="verif", race=False, cwd=None):
        cwd = cwd or self.harness_dir()
        out = os.path.join(self.scratch, name)
        cmd = ["go", "build", "-tags", tags, "-o", out]
        if race:
            cmd.append("-race")
        cmd.append(pkg)
        r = subprocess.run(cmd, cwd=cwd, env=GOENV, capture_output=True, text=True)
        if r.returncode != 0:
            raise Inconclusive("go build %s failed:\n%s" % (pkg, r.stderr[-3000:]))
        return out

    def build_cff(self):
        return self.build_go("./cmd/cff", "cff", tags="", cwd=REPO)

    def run(self, cmd, timeout, cwd=None, env=None, ok_codes=(0,)):
        t = time.time()
        try:
            r = subprocess.run(cmd, cwd=cwd, env=env or GOENV, capture_output=True, text=True, timeout=timeout)
        except subprocess.TimeoutExpired as e:
            raise Inconclusive("timeout after %ss: %s" % (timeout, " ".join(cmd)[:200]))
        if r.returncode not in ok_codes:
            raise Inconclusive("command failed (%d): %s\n%s\n%s" % (r.returncode, " ".join(cmd)[:300],
                                                                     r.stdout[-2000:], r.stderr[-2000:]))
        return r

    # ---------------------------------------------------------------- TLC
    def tlc(self, module, cfg_text, name, workers=16, timeout=900, dfs=False, extra=(), simulate=None,
            allow_violation=False):
        """Runs TLC on spec/<module>.tla with the given config text. Returns a dict with
        states / distinct / output / ok / violated (name of a violated invariant or property)."""
        cfg = os.path.join(self.specdir, name + ".cfg")
        with open(cfg, "w") as f:
            f.write(cfg_text)
        meta = os.path.join(self.scratch, "meta-" + name)
        cmd = ["timeout", str(timeout), "tlc", "-workers", str(workers), "-metadir", meta, "-config", cfg]
        if simulate:
            cmd += ["-simulate", simulate]
        cmd += list(extra) + [module + ".tla"]
        env = dict(os.environ)
        # deep recursive operators (folds over long event lists) need more than the default thread stack
        # (and the JVM's temporary files go to the scratch directory, which is removed, not to /tmp)
        jtmp = os.path.join(self.scratch, "jtmp")
        os.makedirs(jtmp, exist_ok=True)
        env["JAVA_TOOL_OPTIONS"] = "-Xss512m -Djava.io.tmpdir=" + jtmp + (" -Dtlc2.tool.queue.IStateQueue=StateDeque" if dfs else "")
        t = time.time()
        r = subprocess.run(cmd, cwd=self.specdir, env=env, capture_output=True, text=True)
        out = r.stdout + r.stderr
        shutil.rmtree(meta, ignore_errors=True)
        with open(os.path.join(OUTDIR, "%s-%s-%s.tlc.log" % (self.prop, self.tier, name)), "w") as f:
            f.write(out[-400000:])
        res = dict(name=name, module=module, wall_s=round(time.time() - t, 1), output=out, rc=r.returncode)
        m = re.search(r"(\d+) states generated, (\d+) distinct states found", out)
        if m:
            res["generated"], res["distinct"] = int(m.group(1)), int(m.group(2))
        else:
            res["generated"], res["distinct"] = 0, 0
        if r.returncode == 124:
            raise Inconclusive("TLC timeout (%s)" % name)
        viol = None
        m = re.search(r"Error: Invariant (\S+) is violated", out)
        if m:
            viol = m.group(1)
        elif "Error: Deadlock reached" in out:
            viol = "Deadlock"
        elif re.search(r"Error: Temporal properties were violated|Error: Action property .* is violated", out):
            viol = "Temporal"
        elif re.search(r"Error: Postcondition", out) or "POSTCONDITION" in out and "violated" in out:
            viol = "Postcondition"
        res["violated"] = viol
        done = "Model checking completed. No error has been found." in out or (simulate and r.returncode in (0,))
        if not viol and not done and not simulate:
            raise Inconclusive("TLC did not finish (%s): %s" % (name, out[-1500:]))
        if viol and not allow_violation:
            raise Inconclusive("TLC reports %s on the specification itself (%s); this is a result about the "
                               "design, not about the code: see out/*.tlc.log" % (viol, name))
        self.cov["states"] += res["distinct"]
        self.cov["transitions"] += res["generated"]
        self.cov["tlc_runs"].append({k: res[k] for k in ("name", "module", "generated", "distinct", "wall_s")})
        return res

    # ---------------------------------------------------------------- verdicts
    def violation(self, prop, what, replay_obj):
        h = hashlib.sha1(json.dumps(replay_obj, sort_keys=True, default=str).encode()).hexdigest()[:10]
        path = os.path.join(OUTDIR, "replay-%s-%s.json" % (prop, h))
        with open(path, "w") as f:
            json.dump(dict(property=prop, what=what, seed=self.seed, tier=self.tier, replay=replay_obj), f, indent=1, default=str)
        self.violations.append((prop, what, path))

    def finish(self, level, rule, extra_cov=None, distinct_nontrivial=None):
        cov = self.cov
        if extra_cov:
            cov.update(extra_cov)
        cov["rule"] = rule
        if distinct_nontrivial is not None:
            cov["distinct_nontrivial"] = distinct_nontrivial
        if not cov["samples"]:
            cov["samples"] = ["(none)"]
        mine = [v for v in self.violations if v[0] == self.prop]
        ev = dict(property_id=self.prop, tier=self.tier, seed=self.seed, level=level, coverage=cov,
                  assumptions=self.assumptions, wall_s=round(time.time() - self.t0, 1), violations=len(mine),
                  notes=self.notes, inconclusive=self.inconclusive)
        # evidence describes runs against /repo only; runs against a scratch tree (seeded changes) go to out/
        evdir = os.path.join(VERIF, "evidence") if REPO == "/repo" else os.path.join(OUTDIR, "evidence-" + os.path.basename(REPO))
        if getattr(self, "replaying", False):
            evdir = os.path.join(OUTDIR, "evidence-replay")       # a replay says nothing about coverage
        os.makedirs(evdir, exist_ok=True)
        with open(os.path.join(evdir, self.prop + ".json"), "w") as f:
            json.dump(ev, f, indent=1, default=str)
        for k in self.known:
            print(k)
        others = [v for v in self.violations if v[0] != self.prop]
        for p, what, path in others[:5]:
            print("NOTE: while checking %s a violation of %s was seen (%s); the %s check reports it" % (self.prop, p, what, p))
        if mine:
            for p, what, path in mine[:10]:
                print("VIOLATION property=%s replay=%s" % (p, path))
                print("  " + what)
            return 1
        if self.inconclusive:
            for m in self.inconclusive[:10]:
                print("INCONCLUSIVE: " + m)
            return 2
        print("OK property=%s tier=%s seed=%d wall=%.0fs" % (self.prop, self.tier, self.seed, time.time() - self.t0))
        return 0


def load_known():
    out = []
    p = os.path.join(VERIF, "known_findings.jsonl")
    if os.path.exists(p):
        for l in open(p):
            l = l.strip()
            if l:
                out.append(json.loads(l))
    return out


def main(registry):
    if len(sys.argv) < 3:
        print("usage: check <property> <quick|thorough> [--replay path]")
        sys.exit(2)
    prop, tier = sys.argv[1], sys.argv[2]
    tier = os.environ.get("VERIF_TIER", tier) if tier not in ("quick", "thorough") else tier
    seed = int(os.environ.get("VERIF_SEED", "1"))
    if prop not in registry:
        print("unknown property", prop)
        sys.exit(2)
    replay = None
    if "--replay" in sys.argv:
        replay = json.load(open(sys.argv[sys.argv.index("--replay") + 1]))
        seed, tier = int(replay.get("seed", seed)), replay.get("tier", tier)
    c = Ctx(prop, tier, seed)
    c.replaying = replay is not None
    rc = 2
    try:
        if replay is not None:
            import replay as R
            rc = R.replay(c, replay, registry)
        else:
            rc = registry[prop](c)
    except Inconclusive as e:
        print("INCONCLUSIVE: %s" % e)
        rc = 2
    finally:
        c.cleanup()
    sys.exit(rc)
