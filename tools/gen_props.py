"""Per-property checks on generated code (directive level)."""
import gen_checks as G

RULE = ("spec: TLC explores Flow.tla / Parallel.tla (templates transcribed step by step on the scheduler contract, feeding the "
        "monitor DirSys.tla) for seeded small programs x every outcome x schedule x concurrency x cancellation instant (states); "
        "impl: programs: seeded random well-formed Flow/Parallel programs (typed DAGs, predicates, fallbacks, slices, maps, End "
        "hooks, emitters; option order shuffled; value types spelled as struct/pointer/named int/slice/map/generic/"
        "imported) rendered to source, compiled by the cff built from /repo; one evaluation = one execution of one "
        "generated function under one scenario (outcome per user function, delays, concurrency, cancellation; one "
        "'slow' scenario per user function); every execution's stamped events are checked by the monitor DirSys.tla")


def directive(prop, q=(160, 100, 6), t=(1600, 1000, 12), par_exec=0):
    def check(c):
        nflow, npar, nscen = q if c.quick else t
        rounds = 1 if c.quick else 4
        # design level: the templates as transcribed in Flow.tla / Parallel.tla never make the monitor record a
        # violation, for every outcome / schedule / concurrency / cancellation instant of small programs
        if c.quick:
            G.spec_directive(c, *G.small_programs(c, 30, 25, max_tasks=3, max_insts=4))
        else:
            G.spec_directive(c, *G.small_programs(c, 120, 0, max_tasks=4), name="dirbig")
            G.spec_directive(c, *G.small_programs(c, 0, 40, max_insts=6), name="dirbigp", timeout=3400)
        for r in range(rounds):
            G.pipeline(c, nflow // rounds if not c.quick else nflow, npar // rounds if not c.quick else npar, nscen,
                       seed_off=r, par_exec=par_exec)
        if prop == "C15":
            import known_probes
            known_probes.check_known(c, c.build_cff(), ("C15",))
        c.assumptions += ["harness bodies report truthfully (tokens, stamps); the log is mutex-ordered",
                          "programs are drawn from the renderer's feature space (see tools/render.py)"]
        return c.finish("model_checking", RULE)
    return check


REGISTRY = {
    "C02": directive("C02", par_exec=8),
    "C04": directive("C04"),
    "C10": directive("C10"),
    "C11": directive("C11"),
    "C15": directive("C15"),
    "C18": directive("C18", par_exec=4),
}


# ------------------------------------------------------------------ generator-level properties
import os, json, re, subprocess, shutil, random
import render
from vlib import Inconclusive, GOENV
from vlib import REPO as vlib_REPO

GRULE = ("spec: TLC explores Flow.tla / Parallel.tla (templates transcribed step by step on the scheduler contract, feeding the "
        "monitor DirSys.tla) for seeded small programs x every outcome x schedule x concurrency x cancellation instant (states); "
        "impl: programs: seeded random well-formed Flow/Parallel programs rendered into multi-file packages with varying "
         "import aliases (cff, context, a user package named time/debug/multierr), build-constraint spellings and "
         "surrounding declarations; the cff binary is rebuilt from /repo and run on every package in the listed modes")


def c13(c):
    """Output parses, type-checks without the cff tag, no directive left; the tool never panics."""
    cff = c.build_cff()
    tool = c.build_go("./cmd/gendiff", "gendiff", tags="")
    rounds = 1 if c.quick else 4
    n = 0
    for r in range(rounds):
        root, pk, jobs = G.make_corpus(c, 120 if c.quick else 300, 80 if c.quick else 200, 0, seed_off=100 + r)
        for mode, extra in (("base", ()), ("source-map", ()), ("base", ("-auto-instrument",)), ("source-map", ("-auto-instrument",))):
            c.log("cff %s %s" % (mode, " ".join(extra)))
            problems = G.generate(c, cff, root, pk, mode, extra)
            for pkg, kind, text in problems:
                if kind == "crash":
                    c.violation("C13", "cff died with a Go panic (%s %s) on package %s:\n%s" % (mode, extra, pkg, text[-1500:]),
                                dict(kind="gen-corpus", seed_off=100 + r, mode=mode, extra=list(extra)))
                else:
                    c.violation("C14", "cff rejected well-formed programs (%s):\n%s" % (pkg, text[-800:]), dict(kind="gen-corpus", seed_off=100 + r))
                    c.inconclusive.append("corpus rejected by cff: " + text[-300:])
            if problems:
                continue
            ok, err = G.typecheck(c, root)
            if not ok:
                c.violation("C13", "generated package does not type-check without the cff tag (%s %s):\n%s" % (mode, " ".join(extra), err[-1500:]),
                            dict(kind="gen-corpus", seed_off=100 + r, mode=mode, extra=list(extra)))
            for pkg in pk:
                for f in G.gendiff(c, tool, root, pkg):
                    if f["prop"] == "C13":
                        c.violation("C13", "%s: %s (%s)" % (f["src"], f["what"], mode), dict(kind="gen-corpus", seed_off=100 + r, mode=mode, file=f["src"]))
            n += sum(len(v) for v in pk.values())
            c.cov["evaluations"] += sum(len(v) for v in pk.values())
        if len(c.cov["samples"]) < 2:
            p = next(iter(pk.values()))[0]
            c.cov["samples"].append(dict(program={k: v for k, v in p.items() if k != "style"}, style=p["style"]))
    import known_probes
    known_probes.check_known(c, cff, ("C13",))
    c.cov["programs"] = n
    c.cov["disagreements_checked"] = n
    c.cov["distinct_nontrivial"] = n
    c.assumptions += ["'type-checks' is decided by the Go type checker (go build without the cff tag)",
                      "inputs are the renderer's feature space, not all Go programs"]
    return c.finish("exploration", GRULE + "; one evaluation = one program in one mode; non-trivial = every program (each has "
                    "at least one task and distinct structure by construction of the seeded generator)", distinct_nontrivial=n)


def bt_exprs(c, leaves):
    cfg = ("CONSTANTS MaxLeaves = %d  DUMP = TRUE\nSPECIFICATION Spec\nINVARIANTS FlipCorrect NoDoubleNegation Dump\n"
           "CHECK_DEADLOCK FALSE\n" % leaves)
    r = c.tlc("BuildTag", cfg, "buildtag%d" % leaves, workers=1, timeout=3000)
    path = os.path.join(c.scratch, "exprs%d.tsv" % leaves)
    n = 0
    with open(path, "w") as f:
        for l in r["output"].splitlines():
            m = re.match(r'^<<"EXPR", "(.*)", "(.*)">>$', l)
            if m:
                f.write("%s\t%s\n" % (m.group(1), m.group(2)))
                n += 1
    if n == 0:
        raise Inconclusive("BuildTag.tla printed no expressions")
    return path, n


def c16(c):
    cff = c.build_cff()
    tagcheck = c.build_go("./cmd/tagcheck", "tagcheck", tags="")
    tool = c.build_go("./cmd/gendiff", "gendiff", tags="")
    # (a) build constraints: every expression TLC enumerated, all spellings, real cff, truth tables
    if not c.quick:
        c.tlc("BuildTag", "CONSTANTS MaxLeaves = 4  DUMP = FALSE\nSPECIFICATION Spec\nINVARIANTS FlipCorrect NoDoubleNegation\nCHECK_DEADLOCK FALSE\n",
              "buildtag4", workers=16, timeout=3000)
    path, n = bt_exprs(c, 3)
    if c.quick:
        # all expressions with <= 2 leaves and a seeded third of the 3-leaf ones
        rng = random.Random(c.seed)
        lines = open(path).read().splitlines()
        keep = [l for l in lines if l.count("&&") + l.split("\t")[0].count("||") <= 1 or rng.random() < 0.34]
        path = os.path.join(c.scratch, "exprs-quick.tsv")
        open(path, "w").write("\n".join(keep) + "\n")
        n = len(keep)
    troot = os.path.join(c.scratch, "vtag")
    os.makedirs(troot)
    c.run([tagcheck, "gen", "-in", path, "-out", troot], 600)
    open(os.path.join(troot, "go.mod"), "w").write("module vtag\n\ngo 1.19\n\nrequire go.uber.org/cff v0.1.0\n\nreplace go.uber.org/cff => %s\n" % vlib_REPO)
    shutil.copy(vlib_REPO + "/internal/tests/go.sum", os.path.join(troot, "go.sum"))
    for g in sorted(os.listdir(troot)):
        if not re.match(r"g[01][01]$", g):
            continue
        tags = (["-tags", "a"] if g[1] == "1" else []) + (["-tags", "b"] if g[2] == "1" else [])
        r = subprocess.run([cff, "-quiet"] + tags + ["vtag/" + g], cwd=troot, env=GOENV, capture_output=True, text=True, timeout=1800)
        if r.returncode != 0:
            c.inconclusive.append("cff failed on the build-tag corpus %s: %s" % (g, (r.stdout + r.stderr)[-400:]))
    r = c.run([tagcheck, "verify", "-in", path, "-dir", troot], 900)
    res = json.loads(r.stdout)
    c.cov["traces_validated_against_impl"] += res["checked"]
    c.cov["evaluations"] += res["checked"]
    c.cov["samples"].append(dict(build_constraint_expressions=open(path).read().splitlines()[200:204], files_checked=res["checked"]))
    for v in res["violations"][:20]:
        c.violation("C16", "build constraint: %s: %s [source %s ; generated %s]" % (v["file"], v["what"], v["src"], v["gen"]),
                    dict(kind="buildtag", src=v["src"], gen=v["gen"], what=v["what"]))
    # (b) text preservation and (c) output paths, on rendered corpora with surrounding code
    root, pk, jobs = G.make_corpus(c, 100 if c.quick else 400, 60 if c.quick else 300, 0, seed_off=200)
    # a test file and a file with a dot in its name exercise the naming rule
    for pkg in pk:
        fs = G.src_files(root, pkg)
        if len(fs) >= 3:
            d = os.path.join(root, pkg)
            os.rename(os.path.join(d, fs[1]), os.path.join(d, fs[1][:-3] + ".v2.go"))
    before = G.snapshot(root)
    for mode in ("base", "source-map"):
        problems = G.generate(c, cff, root, pk, mode)
        if problems:
            c.inconclusive.append("cff failed on the rendered corpus: " + problems[0][2][-300:])
            continue
        after = G.snapshot(root)
        expected_new = set()
        for pkg in pk:
            for f in G.src_files(root, pkg):
                expected_new.add(os.path.join(pkg, G.gen_name(f)))
        for pth, hsh in after.items():
            if pth not in before and pth not in expected_new:
                c.violation("C16", "cff wrote an undocumented path: %s (%s)" % (pth, mode), dict(kind="paths", path=pth, mode=mode))
            if pth in before and before[pth] != hsh and pth not in expected_new:
                c.violation("C16", "cff modified a file that is not its output: %s (%s)" % (pth, mode), dict(kind="paths", path=pth, mode=mode))
        for pth in expected_new:
            if pth not in after:
                c.violation("C16", "documented output path missing: %s (%s)" % (pth, mode), dict(kind="paths", path=pth, mode=mode))
        for pkg in pk:
            for f in G.gendiff(c, tool, root, pkg):
                if f["prop"] == "C16":
                    c.violation("C16", "%s: %s (%s)" % (f["src"], f["what"], mode), dict(kind="textdiff", file=f["src"], mode=mode))
                elif f["prop"] == "HARNESS":
                    c.inconclusive.append(f["what"])
        c.cov["evaluations"] += sum(len(v) for v in pk.values())
    # -file=IN=OUT writes exactly OUT
    pkg = next(iter(pk))
    f0 = G.src_files(root, pkg)[0]
    alt = os.path.join(root, pkg, "custom_out.go")
    snap1 = G.snapshot(root)
    r = subprocess.run([cff, "-quiet", "-file=%s=%s" % (f0, alt), "vgen/" + pkg], cwd=root, env=GOENV, capture_output=True, text=True, timeout=300)
    snap2 = G.snapshot(root)
    changed = sorted(p for p in snap2 if snap1.get(p) != snap2[p])
    if r.returncode != 0:
        c.inconclusive.append("cff -file=IN=OUT failed: " + (r.stdout + r.stderr)[-300:])
    elif changed != [os.path.join(pkg, "custom_out.go")]:
        c.violation("C16", "-file=IN=OUT changed %s instead of exactly the given output path" % changed, dict(kind="paths", changed=changed))
    c.assumptions += ["truth tables are computed with go/build/constraint over the tags {cff,a,b}"]
    return c.finish("model_checking", "spec: TLC checks FlipCorrect for every constraint expression with <=3 (thorough: <=4) leaves; impl: every "
                    "enumerated expression mentioning cff is rendered as //go:build, as // +build lines and as both, processed by the real "
                    "cff, and the generated header compared (8 assignments each) with the source's and with Flip(e) of the spec; plus AST "
                    "diff source/output with directive calls masked and directory snapshots")


def c17(c):
    """Determinism: repeated runs, fresh processes, file alone vs whole package, both modes."""
    cff = c.build_cff()
    n = 0
    for r in range(1 if c.quick else 3):
        root, pk, jobs = G.make_corpus(c, 100 if c.quick else 300, 60 if c.quick else 200, 0, seed_off=300 + r)
        for mode in ("base", "source-map"):
            ref = None
            for rep in range(3):
                problems = G.generate(c, cff, root, pk, mode)
                if problems:
                    c.inconclusive.append("cff failed: " + problems[0][2][-300:])
                    break
                snap = {p: h for p, h in G.snapshot(root).items() if p.endswith("_gen.go")}
                if ref is None:
                    ref = snap
                elif snap != ref:
                    diff = sorted(p for p in snap if ref.get(p) != snap[p])
                    c.violation("C17", "repeated generation (%s, run %d) produced different bytes for %s" % (mode, rep + 1, diff[:5]),
                                dict(kind="determinism", mode=mode, files=diff[:20], seed_off=300 + r))
            if ref is None:
                continue
            # each file alone, written to a side path, must equal the whole-package output
            for pkg in pk:
                files = G.src_files(root, pkg)
                rng = random.Random(c.seed + r)
                pick = files if not c.quick else rng.sample(files, min(len(files), 12))
                for f in pick:
                    alt = os.path.join(c.scratch, "alone_gen.go")
                    if os.path.exists(alt):
                        os.remove(alt)
                    rr = subprocess.run([cff, "-quiet"] + (["-genmode", mode] if mode != "base" else []) +
                                        ["-file=%s=%s" % (f, alt), "vgen/" + pkg],
                                        cwd=root, env=GOENV, capture_output=True, text=True, timeout=300)
                    if rr.returncode != 0 or not os.path.exists(alt):
                        c.inconclusive.append("cff -file failed on %s: %s" % (f, (rr.stdout + rr.stderr)[-300:]))
                        continue
                    a = open(alt, "rb").read()
                    b = open(os.path.join(root, pkg, G.gen_name(f)), "rb").read()
                    n += 1
                    # the only legitimate difference: source-map line directives name the output file
                    if mode == "source-map":
                        a = a.replace(b"alone_gen.go", G.gen_name(f).encode())
                    if a != b:
                        c.violation("C17", "output for %s differs when the file is processed alone (-file) vs with its package (%s)" % (f, mode),
                                    dict(kind="determinism-file", file=f, mode=mode, seed_off=300 + r))
            c.cov["evaluations"] += sum(len(v) for v in pk.values()) * 3
        if len(c.cov["samples"]) < 2:
            c.cov["samples"].append(dict(package_files={k: G.src_files(root, k)[:5] for k in pk}))
    c.cov["distinct_nontrivial"] = n + c.cov["evaluations"]
    return c.finish("exploration", GRULE + "; each package generated 3 times in fresh processes per mode and every (sampled) file once more "
                    "alone with -file=IN=OUT; byte comparison; non-trivial = every comparison", distinct_nontrivial=n + c.cov["evaluations"])


REGISTRY.update({"C13": c13, "C16": c16, "C17": c17})


# ------------------------------------------------------------------ C14
import wf_checks as W


def c14(c):
    """Validator soundness and completeness against spec/FlowWF.tla and spec/SliceMapTypes.tla."""
    cff = c.build_cff()
    rng = random.Random(c.seed)
    # (1) design level: the validator as written (transcribed in FlowWF.tla) agrees with the property on every small graph
    if c.quick:
        W.enum_graphs(c, 2, 2, 2, 1, name="wf_k2", workers=16, dump=False)           # 223 k graphs, 10 s
    else:
        W.enum_graphs(c, 3, 2, 2, 1, name="wf_k3", workers=16, dump=False, timeout=3400)
        W.enum_graphs(c, 2, 3, 1, 1, name="wf_t3", workers=16, dump=False, timeout=3400)
    # (2) binding: every enumerated graph of the smaller scope through the real cff
    graphs, _ = W.enum_graphs(c, 2, 2, 1, 1, name="wf_dump", workers=1)
    good = [g for g in graphs if not g["ill"]]
    bad = [g for g in graphs if g["ill"]]
    if c.quick:
        bad = rng.sample(bad, min(len(bad), 15000))
    items = [(i, g["g"], g["ill"], g["defects"]) for i, g in enumerate(good + bad)]
    c.log("cff on %d enumerated graphs (%d well-formed)" % (len(items), len(good)))
    n = W.check_graphs(c, cff, items, "enum")
    c.cov["traces_validated_against_impl"] += n
    c.cov["evaluations"] += n
    # (3) random larger graphs and every single-defect mutation of them
    nbase = 150 if c.quick else 1500
    for rnd in range(1 if c.quick else 4):
        ritems, k = [], 0
        for b in range(nbase // (1 if c.quick else 4)):
            g = W.gen_wf_graph(rng, rng.randint(2, 7))
            k += 1
            ritems.append(dict(id=k, g=g, label="base"))
            for lab, m in W.mutations(g, rng):
                k += 1
                ritems.append(dict(id=k, g=m, label=lab))
        v = W.eval_graphs(c, ritems, name="wfeval%d" % rnd)
        basebad = [i for i in ritems if i["label"] == "base" and v[i["id"]]["ill"]]
        if basebad:
            raise Inconclusive("the generator of well-formed graphs produced an ill-formed one: %s" % basebad[0])
        c.log("cff on %d random graphs and mutations" % len(ritems))
        n = W.check_graphs(c, cff, [(i["id"], i["g"], v[i["id"]]["ill"], v[i["id"]]["defects"]) for i in ritems], "rand%d" % rnd)
        c.cov["traces_validated_against_impl"] += n
        c.cov["evaluations"] += n
        if rnd == 0:
            ex = next(i for i in ritems if i["label"].startswith("edge") and v[i["id"]]["ill"])
            c.cov["samples"].append(dict(graph=ex["g"], mutation=ex["label"], verdict=v[ex["id"]]))
    # (4) Slice / Map assignability lattice
    n, cases = W.check_slicemap(c, cff)
    c.cov["traces_validated_against_impl"] += n
    c.cov["evaluations"] += n
    c.cov["samples"].append(dict(slice_map_cases=cases[100:103]))
    c.assumptions += ["flows are rendered with struct value types and literal task functions; 'supported signatures' only",
                      "a flow counts as rejected iff cff prints a diagnostic positioned inside its source range",
                      "the Slice/Map lattice (14 types) is cross-checked against the Go type checker before use"]
    return c.finish("model_checking", "spec: TLC checks on every flow graph of the listed scopes that the validator as written (FlowWF!CffRejects, "
                    "a transcription of compile.go/cycle.go) rejects exactly the ill-formed graphs (FlowWF!IllFormed); impl: one evaluation = "
                    "one flow (or Slice/Map case) rendered to Go and judged by the real cff: every TLC-enumerated graph of the smaller scope "
                    "(well-formed ones also in shuffled option orders), seeded random graphs of 2-7 tasks with every single-defect mutation "
                    "judged by FlowWFEval.tla, and every (element, parameter, position) triple of SliceMapTypes.tla")


REGISTRY.update({"C14": c14})


# ------------------------------------------------------------------ C20
def ret_events(trace):
    """exec -> (kind, errs, toks) of the directive's return, and exec -> list of ustart (u, idx, toks)."""
    rets, calls = {}, {}
    for l in open(trace):
        if '"ev":"ret"' in l or '"ev":"ustart"' in l:
            e = json.loads(l)
            if e["ev"] == "ret":
                rets[e["exec"]] = (e["kind"], sorted((t[0], t[1]) for t in e["errs"]), e["toks"])
            else:
                calls.setdefault(e["exec"], []).append((e["u"], e["idx"], tuple(e["toks"])))
    return rets, calls


def deterministic(sc):
    """The outcome of the directive is a function of the scenario: at most one fault, no cancellation."""
    return sc["cancel"] == "none" and len([k for k, v in sc["out"].items() if v in ("err", "panic")]) <= 1


def c20(c):
    """Generation modes agree: source-map = base up to comments and line directives (token streams) and behaves
    the same (same monitor); modifier mode on the plain subset compiles and returns the same results and errors."""
    cff = c.build_cff()
    tool = c.build_go("./cmd/modecmp", "modecmp", tags="")
    to20 = lambda p: "C20"
    # (1) base vs source-map, with and without -auto-instrument: identical token streams
    rounds = 1 if c.quick else 4
    npairs = 0
    for r in range(rounds):
        root, pk, jobs = G.make_corpus(c, 120 if c.quick else 300, 80 if c.quick else 200, 0, seed_off=400 + r)
        for extra in ((), ("-auto-instrument",)):
            outs = {}
            for mode in ("base", "source-map"):
                problems = G.generate(c, cff, root, pk, mode, extra)
                if problems:
                    if mode == "source-map" and "base" in outs:
                        c.violation("C20", "source-map mode fails on a corpus base mode accepts: " + problems[0][2][-800:],
                                    dict(kind="mode-gen", seed_off=400 + r, extra=list(extra)))
                    else:
                        c.inconclusive.append("cff (%s) failed on the rendered corpus: %s" % (mode, problems[0][2][-300:]))
                    break
                d = os.path.join(c.scratch, "modeout-%d-%s-%s" % (r, mode, "ai" if extra else "plain"))
                os.makedirs(d)
                for pkg in pk:
                    for f in os.listdir(os.path.join(root, pkg)):
                        if f.endswith("_gen.go"):
                            shutil.copy(os.path.join(root, pkg, f), os.path.join(d, pkg + "-" + f))
                outs[mode] = d
            if len(outs) < 2:
                continue
            args = []
            for f in sorted(os.listdir(outs["base"])):
                args += [os.path.join(outs["base"], f), os.path.join(outs["source-map"], f)]
            res = json.loads(c.run([tool] + args, 600).stdout)
            npairs += res["pairs"]
            for fd in res["findings"][:10]:
                c.violation("C20", "source-map output is not base output up to comments and line directives: %s: %s" %
                            (os.path.basename(fd["base"]), fd["what"]), dict(kind="mode-tokens", seed_off=400 + r, extra=list(extra), finding=fd))
            for d in outs.values():
                shutil.rmtree(d, ignore_errors=True)
    c.cov["token_stream_pairs"] = npairs
    c.cov["evaluations"] += npairs
    # (2) source-map code behaves as the reference monitor says (same programs and scenarios pass in base mode
    #     in the C02..C18 checks)
    G.pipeline(c, 60 if c.quick else 400, 40 if c.quick else 300, 4 if c.quick else 10, seed_off=410, mode="source-map", remap=to20)
    # (3) modifier mode on the plain subset
    for r in range(1 if c.quick else 4):
        rng = random.Random(c.seed * 31 + r)
        progs = [render.gen_flow(rng, "F%d" % i, max_tasks=5, plain=True) for i in range(1, (120 if c.quick else 300) + 1)]
        for p in progs:
            p["style"]["shadow"] = []
        ib, im = {}, {}
        nb = G.pipeline(c, 0, 0, 4 if c.quick else 10, seed_off=420 + r, progs=progs, mode="base", info=ib)
        nm = G.pipeline(c, 0, 0, 4 if c.quick else 10, seed_off=420 + r, progs=json.loads(json.dumps(progs)), mode="modifier", remap=to20, info=im)
        if not nb or not nm or "trace" not in ib or "trace" not in im:
            continue
        rb, cb = ret_events(ib["trace"])
        rm, cm = ret_events(im["trace"])
        ncmp = 0
        for job in ib["jobs"]:
            if not deterministic(job["sc"]):
                continue
            ex = job["exec"] * 100
            if ex not in rb or ex not in rm:
                c.inconclusive.append("execution %d missing from a trace" % ex)
                continue
            ncmp += 1
            if rb[ex] != rm[ex]:
                c.violation("C20", "modifier-mode code returns %s where base-mode code returns %s (program %s, scenario %s)" %
                            (rm[ex], rb[ex], job["prog"], job["sc"]["out"]), dict(kind="mode-ret", job=job, base=rb[ex], modifier=rm[ex]))
            elif not [k for k, v in job["sc"]["out"].items() if v in ("err", "panic")] and sorted(cb.get(ex, [])) != sorted(cm.get(ex, [])):
                # which tasks run before a failure stops the flow depends on the schedule; without a failure the calls are determined
                c.violation("C20", "modifier-mode code invokes tasks with other values than base-mode code (program %s, scenario %s)" %
                            (job["prog"], job["sc"]["out"]), dict(kind="mode-calls", job=job))
        c.cov["mode_comparisons"] = c.cov.get("mode_comparisons", 0) + ncmp
    c.assumptions += ["'up to comments and line directives' = equal go/scanner token streams with comments dropped",
                      "modifier subset: flows of Params, Results, Concurrency and plain Tasks (renderer option plain)",
                      "results/errors are compared only for scenarios whose outcome is schedule-independent (at most one fault, no cancellation); "
                      "all scenarios are checked against the monitor DirSys.tla"]
    return c.finish("model_checking", "the same monitor spec DirSys.tla (via DirTrace.tla, TLC) is the reference for all three modes: one evaluation = one "
                    "execution of freshly generated source-map or modifier code checked by it, plus, per (program, scenario) with a schedule-"
                    "independent outcome, equality of base and modifier return events; source-map vs base additionally compared as token streams "
                    "for every generated file, with and without -auto-instrument")


REGISTRY.update({"C20": c20})
