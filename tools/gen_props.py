"""Per-property checks on generated code (directive level)."""
import gen_checks as G

RULE = ("spec: TLC explores Flow.tla / Parallel.tla (templates transcribed step by step on the scheduler contract, feeding the "
        "monitor DirSys.tla) for seeded small programs x every outcome x schedule x concurrency x cancellation instant (states); "
        "impl: programs: seeded random well-formed Flow/Parallel programs (typed DAGs, predicates, fallbacks, slices, maps, End "
        "hooks, emitters; option order shuffled; value types spelled as struct/pointer/named int/slice/map/generic/"
        "imported) rendered to source, compiled by the cff built from /repo; one evaluation = one execution of one "
        "generated function under one scenario (outcome per user function, delays, concurrency, cancellation; one "
        "'slow' scenario per user function); every execution's stamped events are checked by the monitor DirSys.tla")


def directive(prop, q=(160, 100, 6), t=(500, 300, 8), par_exec=0):
    def check(c):
        nflow, npar, nscen = q if c.quick else t
        rounds = 1 if c.quick else 2
        # design level: the templates as transcribed in Flow.tla / Parallel.tla never make the monitor record a
        # violation, for every outcome / schedule / concurrency / cancellation instant of small programs
        if c.quick:
            G.spec_directive(c, *G.small_programs(c, 30, 25, max_tasks=3, max_insts=4))
        else:
            G.spec_directive(c, *G.small_programs(c, 60, 0, max_tasks=4), name="dirbig")
            G.spec_directive(c, *G.small_programs(c, 0, 20, max_insts=5), name="dirbigp", timeout=1500)
        for r in range(rounds):
            G.pipeline(c, nflow, npar, nscen,
                       seed_off=r, par_exec=par_exec, model_traces=900 if c.quick else 2500)
        if prop == "C15":
            import known_probes
            known_probes.check_known(c, c.build_cff(), ("C15",))
        if prop == "C18":
            # the same with -auto-instrument: every task of an instrumented directive reports
            G.pipeline(c, 60 if c.quick else 300, 40 if c.quick else 200, 4 if c.quick else 10, seed_off=60, cff_extra=("-auto-instrument",))
        c.assumptions += ["harness bodies report truthfully (tokens, stamps); the log is mutex-ordered",
                          "programs are drawn from the renderer's feature space (see tools/render.py)"]
        return c.finish("model_checking", RULE)
    return check


REGISTRY = {
    "C02": directive("C02", par_exec=8),
    "C04": directive("C04"),
    "C10": directive("C10"),
    "C11": directive("C11"),
    "C15": directive("C15"),
    "C18": directive("C18", par_exec=4),
}


# ------------------------------------------------------------------ generator-level properties
import os, json, re, subprocess, shutil, random
import render
from vlib import Inconclusive, GOENV
from vlib import REPO as vlib_REPO

GRULE = ("spec: TLC explores Flow.tla / Parallel.tla (templates transcribed step by step on the scheduler contract, feeding the "
        "monitor DirSys.tla) for seeded small programs x every outcome x schedule x concurrency x cancellation instant (states); "
        "impl: programs: seeded random well-formed Flow/Parallel programs rendered into multi-file packages with varying "
         "import aliases (cff, context, a user package named time/debug/multierr), build-constraint spellings and "
         "surrounding declarations; the cff binary is rebuilt from /repo and run on every package in the listed modes")


def c13(c):
    """Output parses, type-checks without the cff tag, no directive left; the tool never panics.  Every
    invocation is an event of spec/GenPipeline.tla; the atoms 'type-checks' and 'a directive call remains'
    are observed with the Go tool chain and an AST scan (cmd/gendiff)."""
    cff = c.build_cff()
    tool = c.build_go("./cmd/gendiff", "gendiff", tags="")
    rounds = 1 if c.quick else 4
    n = 0
    for r in range(rounds):
        root, pk, jobs = G.make_corpus(c, 120 if c.quick else 300, 80 if c.quick else 200, 0, seed_off=100 + r)
        log = G.GenLog(c, "c13-%d" % r)
        for mode, extra in (("base", ()), ("source-map", ()), ("base", ("-auto-instrument",)), ("source-map", ("-auto-instrument",))):
            c.log("cff %s %s" % (mode, " ".join(extra)))
            for pkg in pk:
                log.run(cff, root, pkg, mode, extra, typecheck=True, scan_tool=tool)
            n += sum(len(v) for v in pk.values())
        # ill-formed input: the tool must answer with positioned diagnostics, not with a crash
        bad = os.path.join(root, "pbad")
        os.makedirs(bad, exist_ok=True)
        open(os.path.join(bad, "bad.go"), "w").write(
            "//go:build cff\n\npackage pbad\n\nimport (\n\t\"context\"\n\n\t\"go.uber.org/cff\"\n)\n\n"
            "// Bad consumes a type nobody provides.\nfunc Bad(ctx context.Context) error {\n\tvar out string\n"
            "\treturn cff.Flow(ctx, cff.Results(&out), cff.Task(func(i int) string { return \"\" }))\n}\n")
        log.run(cff, root, "pbad", "base", (), expectok=False)
        # ... many of them: every single-defect mutation (missing / duplicate providers, cycles through tasks and
        # predicates, unused values, stripped Invoke) of random well-formed graphs, many flows per file
        wrng = random.Random(c.seed * 13 + r)
        flows, alone, k = [], [], 0
        for b_ in range(12 if c.quick else 60):
            g = W.gen_wf_graph(wrng, wrng.randint(2, 6))
            for lab, mg in W.mutations(g, wrng):
                k += 1
                # cff stops compiling a file's later flows once one has an error, so what the validator lets
                # through reaches the later stages only in the first bad flow of a file: extra edges (the cycle
                # candidates) get a file each
                (alone if lab.startswith(("edge", "pedge")) else flows).append(("M%d" % k, mg, None))
        alone = wrng.sample(alone, min(len(alone), 60 if c.quick else 400))
        maxk = max([1] + [ty for _, g, _ in flows + alone for ty in g["params"] + g["results"] + [t for tk in g["tasks"] for t in tk["ins"] + tk["outs"] + tk["pins"]]])
        files = {"mut%d.go" % i: ch for i, ch in enumerate(W.chunks(flows, 120))}
        files.update({"one%d.go" % i: [f] for i, f in enumerate(alone)})
        W.write_pkg(root, "pbadwf", files, maxk)
        log.run(cff, root, "pbadwf", "base", (), expectok=False)
        log.judge("corpus %d" % r)
        if len(c.cov["samples"]) < 2:
            p = next(iter(pk.values()))[0]
            c.cov["samples"].append(dict(program={k: v for k, v in p.items() if k != "style"}, style=p["style"]))
    import known_probes
    known_probes.check_known(c, cff, ("C13",))
    c.cov["programs"] = n
    c.cov["evaluations"] = n
    c.cov["disagreements_checked"] = n
    c.cov["distinct_nontrivial"] = n
    c.assumptions += ["'type-checks' is decided by the Go type checker (go build without the cff tag)",
                      "inputs are the renderer's feature space, not all Go programs"]
    return c.finish("exploration", GRULE + "; one evaluation = one program in one mode; non-trivial = every program (each has "
                    "at least one task and distinct structure by construction of the seeded generator); the verdict per invocation is "
                    "taken by the monitor spec/GenPipeline.tla from the recorded event (exit status, crash, diagnostics, written paths, "
                    "type-check result, surviving directive calls)", distinct_nontrivial=n)


def bt_exprs(c, leaves):
    cfg = ("CONSTANTS MaxLeaves = %d  DUMP = TRUE\nSPECIFICATION Spec\nINVARIANTS FlipCorrect NoDoubleNegation Dump\n"
           "CHECK_DEADLOCK FALSE\n" % leaves)
    r = c.tlc("BuildTag", cfg, "buildtag%d" % leaves, workers=1 if leaves <= 3 else 8, timeout=3000)
    path = os.path.join(c.scratch, "exprs%d.tsv" % leaves)
    n = 0
    with open(path, "w") as f:
        for l in r["output"].splitlines():
            m = re.match(r'^<<"EXPR", "(.*)", "(.*)">>$', l)
            if m:
                f.write("%s\t%s\n" % (m.group(1), m.group(2)))
                n += 1
    if n == 0:
        raise Inconclusive("BuildTag.tla printed no expressions")
    return path, n


def c16(c):
    cff = c.build_cff()
    tagcheck = c.build_go("./cmd/tagcheck", "tagcheck", tags="")
    tool = c.build_go("./cmd/gendiff", "gendiff", tags="")
    # (a) build constraints: every expression TLC enumerated, all spellings, real cff, truth tables
    path, n = bt_exprs(c, 3 if c.quick else 4)
    if not c.quick:
        # every expression with <= 3 leaves and a seeded sample of the 428 k four-leaf ones
        rng = random.Random(c.seed)
        lines = open(path).read().splitlines()
        nops = lambda l: l.split("\t")[0].count("&&") + l.split("\t")[0].count("||")
        keep = [l for l in lines if nops(l) <= 2] + rng.sample([l for l in lines if nops(l) == 3], 12000)
        path = os.path.join(c.scratch, "exprs-thorough.tsv")
        open(path, "w").write("\n".join(keep) + "\n")
        n = len(keep)
    if c.quick:
        # all expressions with <= 2 leaves and a seeded third of the 3-leaf ones
        rng = random.Random(c.seed)
        lines = open(path).read().splitlines()
        keep = [l for l in lines if l.count("&&") + l.split("\t")[0].count("||") <= 1 or rng.random() < 0.34]
        path = os.path.join(c.scratch, "exprs-quick.tsv")
        open(path, "w").write("\n".join(keep) + "\n")
        n = len(keep)
    troot = os.path.join(c.scratch, "vtag")
    os.makedirs(troot)
    c.run([tagcheck, "gen", "-in", path, "-out", troot], 600)
    open(os.path.join(troot, "go.mod"), "w").write("module vtag\n\ngo 1.19\n\nrequire go.uber.org/cff v0.1.0\n\nreplace go.uber.org/cff => %s\n" % vlib_REPO)
    shutil.copy(vlib_REPO + "/internal/tests/go.sum", os.path.join(troot, "go.sum"))
    for g in sorted(os.listdir(troot)):
        if not re.match(r"g[01][01]$", g):
            continue
        tags = (["-tags", "a"] if g[1] == "1" else []) + (["-tags", "b"] if g[2] == "1" else [])
        r = subprocess.run([cff, "-quiet"] + tags + ["vtag/" + g], cwd=troot, env=GOENV, capture_output=True, text=True, timeout=1800)
        if r.returncode != 0:
            c.inconclusive.append("cff failed on the build-tag corpus %s: %s" % (g, (r.stdout + r.stderr)[-400:]))
    r = c.run([tagcheck, "verify", "-in", path, "-dir", troot], 900)
    res = json.loads(r.stdout)
    c.cov["traces_validated_against_impl"] += res["checked"]
    c.cov["evaluations"] += res["checked"]
    c.cov["samples"].append(dict(build_constraint_expressions=open(path).read().splitlines()[200:204], files_checked=res["checked"]))
    for v in res["violations"][:20]:
        c.violation("C16", "build constraint: %s: %s [source %s ; generated %s]" % (v["file"], v["what"], v["src"], v["gen"]),
                    dict(kind="buildtag", src=v["src"], gen=v["gen"], what=v["what"]))
    # (b) text preservation and (c) output paths, on rendered corpora with surrounding code
    root, pk, jobs = G.make_corpus(c, 100 if c.quick else 400, 60 if c.quick else 300, 0, seed_off=200)
    # a test file and a file with a dot in its name exercise the naming rule
    for pkg in pk:
        fs = G.src_files(root, pkg)
        if len(fs) >= 3:
            d = os.path.join(root, pkg)
            os.rename(os.path.join(d, fs[1]), os.path.join(d, fs[1][:-3] + ".v2.go"))
    # a test file: its output is <name>_gen_test.go
    for pkg in pk:
        open(os.path.join(root, pkg, "extra_test.go"), "w").write(
            "//go:build cff\n\npackage %s\n\nimport (\n\t\"context\"\n\n\t\"go.uber.org/cff\"\n)\n\n"
            "// extraFlow lives in a test file.\nfunc extraFlow(ctx context.Context) (r int, err error) {\n"
            "\terr = cff.Flow(ctx, cff.Results(&r), cff.Task(func() int { return 1 }))\n\treturn\n}\n" % pkg)
    log = G.GenLog(c, "c16")
    for mode in ("base", "source-map"):
        for pkg in pk:
            ev = log.run(cff, root, pkg, mode)
            if ev["rc"] != 0:
                continue
            for f in G.gendiff(c, tool, root, pkg):
                if f["prop"] == "C16":
                    c.violation("C16", "%s: %s (%s)" % (f["src"], f["what"], mode), dict(kind="textdiff", file=f["src"], mode=mode))
                elif f["prop"] == "HARNESS":
                    c.inconclusive.append(f["what"])
        c.cov["evaluations"] += sum(len(v) for v in pk.values())
    # -file selections: exactly the selected files' outputs are written, at the given paths
    rng = random.Random(c.seed)
    for pkg in pk:
        files = G.src_files(root, pkg)
        log.run(cff, root, pkg, "base", files=[files[0]], alt={files[0]: "custom_out.go"})
        if len(files) >= 3:
            sel = rng.sample(files, 3)
            log.run(cff, root, pkg, "base", files=sel, alt={sel[1]: "other_out.go"})
    log.judge("output paths")
    G.history_replay(c, cff, 10 if c.quick else 120, 6 if c.quick else 7, name="genfs16")
    c.assumptions += ["truth tables are computed with go/build/constraint over the tags {cff,a,b}"]
    return c.finish("model_checking", "spec: TLC checks FlipCorrect for every constraint expression with <=3 (thorough: <=4) leaves; impl: every "
                    "enumerated expression mentioning cff is rendered as //go:build, as // +build lines and as both, processed by the real "
                    "cff, and the generated header compared (8 assignments each) with the source's and with Flip(e) of the spec; plus AST "
                    "diff source/output with directive calls masked and directory snapshots")


def c17(c):
    """Determinism: the monitor GenPipeline.tla learns, per (package, file, mode, flags), the content the tool
    produces and records any later observation that differs: repeated runs in fresh processes, each file alone
    (-file=IN=OUT) vs the whole package, base and source-map, with and without -auto-instrument."""
    cff = c.build_cff()
    n = 0
    for r in range(1 if c.quick else 3):
        root, pk, jobs = G.make_corpus(c, 100 if c.quick else 300, 60 if c.quick else 200, 0, seed_off=300 + r)
        log = G.GenLog(c, "c17-%d" % r)
        rng = random.Random(c.seed + r)
        for mode in ("base", "source-map"):
            for extra in ((), ("-auto-instrument",)) if not c.quick or mode == "base" else ((),):
                for pkg in pk:
                    for rep in range(3):
                        ev = log.run(cff, root, pkg, mode, extra)
                        if ev["rc"] != 0:
                            break
                    # regeneration over what an earlier run left / over an older, longer or shorter output
                    if ev["rc"] == 0:
                        for st in ("same", "longer", "shorter"):
                            log.run(cff, root, pkg, mode, extra, stale=st)
                    files = G.src_files(root, pkg)
                    pick = rng.sample(files, min(len(files), 10 if c.quick else 40))
                    for f in pick:
                        log.run(cff, root, pkg, mode, extra, files=[f], alt={f: "alone_out.go"})
                    # two files selected together, in reversed order on the command line
                    if len(files) >= 2:
                        a, b = rng.sample(files, 2)
                        log.run(cff, root, pkg, mode, extra, files=[b, a])
                    if os.path.exists(os.path.join(root, pkg, "alone_out.go")):
                        os.remove(os.path.join(root, pkg, "alone_out.go"))
        n += log.judge("determinism corpus %d" % r)
        if len(c.cov["samples"]) < 2:
            e = log.events[len(log.events) // 2]
            c.cov["samples"].append({k: e[k] for k in ("pkg", "mode", "flags", "selected", "outputs", "rc", "written")})
    # spec -> code: histories of spec/GenFS.tla (edits, selections, other output paths, deleted and older outputs in
    # the way) performed on a real package; after every step the directory must be what the model says
    n += G.history_replay(c, cff, 12 if c.quick else 150, 6 if c.quick else 7)
    c.cov["evaluations"] = n
    c.cov["distinct_nontrivial"] = c.cov.get("generator_functions_learnt", 0)
    return c.finish("model_checking", GRULE + "; plus behaviours of spec/GenFS.tla chosen by TLC's simulator and replayed step by step on a real package; "
                    "one evaluation = one invocation of cff (whole package three times per mode/flags in fresh processes, "
                    "files alone with -file=IN=OUT, pairs of files in reversed order); every invocation is an event of spec/GenPipeline.tla "
                    "(validated by GenTrace.tla, TLC), whose monitor fixes the content per (package, file, mode, flags) at first observation; "
                    "distinct_nontrivial = number of such keys learnt", distinct_nontrivial=c.cov.get("generator_functions_learnt", 0))


REGISTRY.update({"C13": c13, "C16": c16, "C17": c17})


# ------------------------------------------------------------------ C14
import wf_checks as W


def c14(c):
    """Validator soundness and completeness against spec/FlowWF.tla and spec/SliceMapTypes.tla."""
    cff = c.build_cff()
    rng = random.Random(c.seed)
    # (1) design level: the validator as written (transcribed in FlowWF.tla) agrees with the property on every small graph
    if c.quick:
        W.enum_graphs(c, 2, 2, 2, 1, name="wf_k2", workers=16, dump=False)           # 223 k graphs, 10 s
    else:
        W.enum_graphs(c, 3, 2, 2, 1, name="wf_k3", workers=16, dump=False, timeout=3400)
        W.enum_graphs(c, 2, 3, 1, 1, name="wf_t3", workers=16, dump=False, timeout=3400)
    # (2) binding: every enumerated graph of the smaller scope through the real cff
    graphs, _ = W.enum_graphs(c, 2, 2, 1, 1, name="wf_dump", workers=1)
    good = [g for g in graphs if not g["ill"]]
    bad = [g for g in graphs if g["ill"]]
    if c.quick:
        bad = rng.sample(bad, min(len(bad), 15000))
    items = [(i, g["g"], g["ill"], g["defects"]) for i, g in enumerate(good + bad)]
    c.log("cff on %d enumerated graphs (%d well-formed)" % (len(items), len(good)))
    n = W.check_graphs(c, cff, items, "enum")
    c.cov["traces_validated_against_impl"] += n
    c.cov["evaluations"] += n
    # (3) random larger graphs and every single-defect mutation of them
    nbase = 150 if c.quick else 1500
    for rnd in range(1 if c.quick else 4):
        ritems, k = [], 0
        for b in range(nbase // (1 if c.quick else 4)):
            g = W.gen_wf_graph(rng, rng.randint(2, 7))
            k += 1
            ritems.append(dict(id=k, g=g, label="base"))
            for lab, m in W.mutations(g, rng):
                k += 1
                ritems.append(dict(id=k, g=m, label=lab))
        v = W.eval_graphs(c, ritems, name="wfeval%d" % rnd)
        basebad = [i for i in ritems if i["label"] == "base" and v[i["id"]]["ill"]]
        if basebad:
            raise Inconclusive("the generator of well-formed graphs produced an ill-formed one: %s" % basebad[0])
        c.log("cff on %d random graphs and mutations" % len(ritems))
        n = W.check_graphs(c, cff, [(i["id"], i["g"], v[i["id"]]["ill"], v[i["id"]]["defects"]) for i in ritems], "rand%d" % rnd)
        c.cov["traces_validated_against_impl"] += n
        c.cov["evaluations"] += n
        if rnd == 0:
            ex = next(i for i in ritems if i["label"].startswith("edge") and v[i["id"]]["ill"])
            c.cov["samples"].append(dict(graph=ex["g"], mutation=ex["label"], verdict=v[ex["id"]]))
    # (4) Slice / Map assignability lattice
    n, cases = W.check_slicemap(c, cff)
    c.cov["traces_validated_against_impl"] += n
    c.cov["evaluations"] += n
    c.cov["samples"].append(dict(slice_map_cases=cases[100:103]))
    c.assumptions += ["flows are rendered with struct value types and literal task functions; 'supported signatures' only",
                      "a flow counts as rejected iff cff prints a diagnostic positioned inside its source range",
                      "the Slice/Map lattice (14 types) is cross-checked against the Go type checker before use"]
    return c.finish("model_checking", "spec: TLC checks on every flow graph of the listed scopes that the validator as written (FlowWF!CffRejects, "
                    "a transcription of compile.go/cycle.go) rejects exactly the ill-formed graphs (FlowWF!IllFormed); impl: one evaluation = "
                    "one flow (or Slice/Map case) rendered to Go and judged by the real cff: every TLC-enumerated graph of the smaller scope "
                    "(well-formed ones also in shuffled option orders), seeded random graphs of 2-7 tasks with every single-defect mutation "
                    "judged by FlowWFEval.tla, and every (element, parameter, position) triple of SliceMapTypes.tla")


REGISTRY.update({"C14": c14})


# ------------------------------------------------------------------ C20
def ret_events(trace):
    """exec -> (kind, errs, toks) of the directive's return, and exec -> list of ustart (u, idx, toks)."""
    rets, calls = {}, {}
    for l in open(trace):
        if '"ev":"ret"' in l or '"ev":"ustart"' in l:
            e = json.loads(l)
            if e["ev"] == "ret":
                rets[e["exec"]] = (e["kind"], sorted((t[0], t[1]) for t in e["errs"]), e["toks"])
            else:
                calls.setdefault(e["exec"], []).append((e["u"], e["idx"], tuple(e["toks"])))
    return rets, calls


def deterministic(sc):
    """The outcome of the directive is a function of the scenario: at most one fault, no cancellation."""
    # (a Hold scenario cancels the context as soon as the held body runs: which other tasks ran by then is a race)
    return sc["cancel"] == "none" and not sc.get("hold") and len([k for k, v in sc["out"].items() if v in ("err", "panic")]) <= 1


def c20(c):
    """Generation modes agree: source-map = base up to comments and line directives (token streams) and behaves
    the same (same monitor); modifier mode on the plain subset compiles and returns the same results and errors."""
    cff = c.build_cff()
    tool = c.build_go("./cmd/modecmp", "modecmp", tags="")
    to20 = lambda p: "C20"
    # (1) base vs source-map, with and without -auto-instrument: identical token streams
    rounds = 1 if c.quick else 4
    npairs = 0
    for r in range(rounds):
        root, pk, jobs = G.make_corpus(c, 120 if c.quick else 300, 80 if c.quick else 200, 0, seed_off=400 + r)
        for extra in ((), ("-auto-instrument",)):
            outs = {}
            for mode in ("base", "source-map"):
                problems = G.generate(c, cff, root, pk, mode, extra)
                if problems:
                    if mode == "source-map" and "base" in outs:
                        c.violation("C20", "source-map mode fails on a corpus base mode accepts: " + problems[0][2][-800:],
                                    dict(kind="mode-gen", seed_off=400 + r, extra=list(extra)))
                    else:
                        c.inconclusive.append("cff (%s) failed on the rendered corpus: %s" % (mode, problems[0][2][-300:]))
                    break
                d = os.path.join(c.scratch, "modeout-%d-%s-%s" % (r, mode, "ai" if extra else "plain"))
                os.makedirs(d)
                for pkg in pk:
                    for f in os.listdir(os.path.join(root, pkg)):
                        if f.endswith("_gen.go"):
                            shutil.copy(os.path.join(root, pkg, f), os.path.join(d, pkg + "-" + f))
                outs[mode] = d
            if len(outs) < 2:
                continue
            args = []
            for f in sorted(os.listdir(outs["base"])):
                args += [os.path.join(outs["base"], f), os.path.join(outs["source-map"], f)]
            res = json.loads(c.run([tool] + args, 600).stdout)
            npairs += res["pairs"]
            for fd in res["findings"][:10]:
                c.violation("C20", "source-map output is not base output up to comments and line directives: %s: %s" %
                            (os.path.basename(fd["base"]), fd["what"]), dict(kind="mode-tokens", seed_off=400 + r, extra=list(extra), finding=fd))
            for d in outs.values():
                shutil.rmtree(d, ignore_errors=True)
    c.cov["token_stream_pairs"] = npairs
    c.cov["evaluations"] += npairs
    # (2) source-map code behaves as the reference monitor says (same programs and scenarios pass in base mode
    #     in the C02..C18 checks)
    G.pipeline(c, 60 if c.quick else 400, 40 if c.quick else 300, 4 if c.quick else 10, seed_off=410, mode="source-map", remap=to20,
               model_traces=450 if c.quick else 3000)
    # (3) modifier mode on the plain subset
    for r in range(1 if c.quick else 4):
        rng = random.Random(c.seed * 31 + r)
        progs = [render.gen_flow(rng, "F%d" % i, max_tasks=5, plain=True) for i in range(1, (120 if c.quick else 300) + 1)]
        for p in progs:
            p["style"]["shadow"] = []
        ib, im = {}, {}
        nb = G.pipeline(c, 0, 0, 4 if c.quick else 10, seed_off=420 + r, progs=progs, mode="base", info=ib)
        nm = G.pipeline(c, 0, 0, 4 if c.quick else 10, seed_off=420 + r, progs=json.loads(json.dumps(progs)), mode="modifier", remap=to20, info=im,
                        model_traces=450 if c.quick else 3000)
        if not nb or not nm or "trace" not in ib or "trace" not in im:
            continue
        rb, cb = ret_events(ib["trace"])
        rm, cm = ret_events(im["trace"])
        ncmp = 0
        for job in ib["jobs"]:
            if not deterministic(job["sc"]):
                continue
            ex = job["exec"] * 100
            if ex not in rb or ex not in rm:
                c.inconclusive.append("execution %d missing from a trace" % ex)
                continue
            ncmp += 1
            if rb[ex] != rm[ex]:
                c.violation("C20", "modifier-mode code returns %s where base-mode code returns %s (program %s, scenario %s)" %
                            (rm[ex], rb[ex], job["prog"], job["sc"]["out"]), dict(kind="mode-ret", job=job, base=rb[ex], modifier=rm[ex]))
            elif not [k for k, v in job["sc"]["out"].items() if v in ("err", "panic")] and sorted(cb.get(ex, [])) != sorted(cm.get(ex, [])):
                # which tasks run before a failure stops the flow depends on the schedule; without a failure the calls are determined
                c.violation("C20", "modifier-mode code invokes tasks with other values than base-mode code (program %s, scenario %s)" %
                            (job["prog"], job["sc"]["out"]), dict(kind="mode-calls", job=job))
        c.cov["mode_comparisons"] = c.cov.get("mode_comparisons", 0) + ncmp
    c.assumptions += ["'up to comments and line directives' = equal go/scanner token streams with comments dropped",
                      "modifier subset: flows of Params, Results, Concurrency and plain Tasks (renderer option plain)",
                      "results/errors are compared only for scenarios whose outcome is schedule-independent (at most one fault, no cancellation); "
                      "all scenarios are checked against the monitor DirSys.tla"]
    return c.finish("model_checking", "the same monitor spec DirSys.tla (via DirTrace.tla, TLC) is the reference for all three modes: one evaluation = one "
                    "execution of freshly generated source-map or modifier code checked by it, plus, per (program, scenario) with a schedule-"
                    "independent outcome, equality of base and modifier return events; source-map vs base additionally compared as token streams "
                    "for every generated file, with and without -auto-instrument")


REGISTRY.update({"C20": c20})
