"""Per-property checks on generated code (directive level)."""
import gen_checks as G

RULE = ("programs: seeded random well-formed Flow/Parallel programs (typed DAGs, predicates, fallbacks, slices, maps, End "
        "hooks, emitters; option order shuffled; value types spelled as struct/pointer/named int/slice/map/generic/"
        "imported) rendered to source, compiled by the cff built from /repo; one evaluation = one execution of one "
        "generated function under one scenario (outcome per user function, delays, concurrency, cancellation; one "
        "'slow' scenario per user function); every execution's stamped events are checked by the monitor DirSys.tla")


def directive(prop, q=(160, 100, 6), t=(1600, 1000, 12), par_exec=0):
    def check(c):
        nflow, npar, nscen = q if c.quick else t
        rounds = 1 if c.quick else 4
        for r in range(rounds):
            G.pipeline(c, nflow // rounds if not c.quick else nflow, npar // rounds if not c.quick else npar, nscen,
                       seed_off=r, par_exec=par_exec)
        c.assumptions += ["harness bodies report truthfully (tokens, stamps); the log is mutex-ordered",
                          "programs are drawn from the renderer's feature space (see tools/render.py)"]
        return c.finish("model_checking", RULE)
    return check


REGISTRY = {
    "C02": directive("C02", par_exec=8),
    "C04": directive("C04"),
    "C10": directive("C10"),
    "C11": directive("C11"),
    "C15": directive("C15"),
    "C18": directive("C18"),
}
