CONSTANTS MaxJ = 3  MaxN = 2  G = 0  COES = {FALSE}  CANCEL = TRUE  GATED = TRUE  DUPDEPS = FALSE
OUTCOMES = {"ok","err"}
SPECIFICATION Spec
INVARIANTS TypeOK DepsBeforeRun RunningBound WorkerPopulation StateReportOK OngoingBound FailFastSound CoeExact NoDoomedStart CancelledNotNil Ownership
PROPERTIES Terminates Refines
CHECK_DEADLOCK TRUE
