---------------------------- MODULE GenPipeline ----------------------------
(***************************************************************************)
(* The cff tool as a file-system state machine, as a monitor (C13, C16     *)
(* output paths, C17).                                                     *)
(*                                                                         *)
(* One event per invocation of the real cff binary on a rendered package,  *)
(* recorded by tools/gen_props.py from the command line, the exit status,  *)
(* stderr and a hash snapshot of the module directory before and after:    *)
(*                                                                         *)
(*   [ev |-> "run", id, pkg, mode, flags,                                  *)
(*    selected : the source files cff was asked to process (all files of   *)
(*               the package with directives, or the -file selection),     *)
(*    outputs  : for each selected file the documented output path         *)
(*               (foo.go -> foo_gen.go, foo_test.go -> foo_gen_test.go, or *)
(*               the OUT of -file=IN=OUT), in the order of `selected`,     *)
(*    expectok : the input is one cff must accept (well-formed programs),  *)
(*    rc, crashed (stderr shows a Go panic), diagfiles (files named by     *)
(*    positioned diagnostics),                                             *)
(*    written  : <<path, content hash>> for every path that is new or whose *)
(*               content changed, deleted : paths that disappeared,        *)
(*    typechecks : "yes" | "no" | "skipped"  (go build without the cff tag *)
(*               of the module after the run),                             *)
(*    surviving : number of calls to code-generation directives found in   *)
(*               the written files,                                        *)
(*    fresh    : the outputs did not exist before the run; otherwise stale *)
(*               says what they held ("same" | "longer" | "shorter") and   *)
(*    final    : the content hash of each output after the run ("" if it   *)
(*               does not exist)]                                          *)
(*                                                                         *)
(* The monitor keeps H, the content the tool is known to produce for a     *)
(* (package, source file, mode, flags) - unknown until first observed,     *)
(* then fixed: the generated text is a function of the input file and its  *)
(* package, whatever else is selected, whichever process runs (C17).       *)
(* Content hashes are taken after replacing the output file's own name by  *)
(* a placeholder (source-map line directives mention it).                  *)
(***************************************************************************)
EXTENDS Integers, Sequences, FiniteSets, TLC

RangeOf(s) == {s[i] : i \in DOMAIN s}

GInit == [H |-> <<>>,            \* sequence of <<key, hash>> pairs (a function learnt as it is observed)
          nruns |-> 0,
          viol |-> {}]

KeyOf(e, k) == <<e.pkg, e.selected[k], e.mode, e.flags>>
Known(g, key) == \E i \in DOMAIN g.H : g.H[i][1] = key
HashOf(g, key) == g.H[CHOOSE i \in DOMAIN g.H : g.H[i][1] = key][2]
V(e, prop, what) == <<e.id, prop, what>>

\* the hash written for output path p in this run (written is a sequence of <<path, hash>>)
WrittenPaths(e) == {e.written[i][1] : i \in DOMAIN e.written}
WrittenHash(e, p) == e.written[CHOOSE i \in DOMAIN e.written : e.written[i][1] = p][2]

RECURSIVE Learn(_, _, _)
\* fold over the selected files: compare with / extend H
Learn(g, e, k) ==
  IF k > Len(e.selected) THEN g
  ELSE LET out == e.outputs[k]
           key == KeyOf(e, k)
           \* a run over outputs that existed beforehand (e.fresh = FALSE: left from an earlier run, or an older
           \* longer / shorter text planted by the harness) must leave exactly what a run from scratch writes;
           \* a successful run that does not touch the file is an observation too (e.final[k] = its content now)
           observed == out \in WrittenPaths(e) \/ (~e.fresh /\ e.rc = 0 /\ e.final[k] # "")
       IN IF ~observed THEN Learn(g, e, k + 1)
          ELSE LET h == IF out \in WrittenPaths(e) THEN WrittenHash(e, out) ELSE e.final[k] IN
               IF Known(g, key)
               THEN Learn(IF HashOf(g, key) = h THEN g
                          ELSE [g EXCEPT !.viol = @ \cup {V(e, "C17", "output for " \o e.selected[k] \o
                                      (IF e.fresh THEN " differs from an earlier generation of the same file, package, mode and flags"
                                       ELSE " depends on what the output file held before the run (" \o e.stale \o ")"))}],
                          e, k + 1)
               ELSE Learn([g EXCEPT !.H = Append(@, <<key, h>>)], e, k + 1)

OnRun(g, e) ==
  LET docOut == RangeOf(e.outputs)
      stray == WrittenPaths(e) \ docOut
      rejected == e.rc # 0
      g1 == [g EXCEPT !.nruns = @ + 1,
               !.viol = @
                 \cup (IF e.crashed THEN {V(e, "C13", "cff died with a Go panic")} ELSE {})
                 \cup (IF stray = {} THEN {} ELSE {V(e, "C16", "cff wrote or modified a path that is not a documented output")})
                 \cup (IF e.deleted = <<>> THEN {} ELSE {V(e, "C16", "cff removed a file")})
                 \cup (IF rejected /\ ~e.crashed /\ e.diagfiles = <<>>
                       THEN {V(e, "C13", "non-zero exit without a positioned diagnostic")} ELSE {})
                 \cup (IF rejected /\ e.expectok /\ ~e.crashed
                       THEN {V(e, "C14", "cff rejected well-formed programs")} ELSE {})
                 \* a file named by a diagnostic gets no output
                 \cup (IF \E k \in DOMAIN e.selected : e.selected[k] \in RangeOf(e.diagfiles) /\ e.outputs[k] \in WrittenPaths(e)
                       THEN {V(e, "C14", "output written for a file with diagnostics")} ELSE {})
                 \* success: every selected file has its output, the result type-checks, no directive is left
                 \cup (IF e.rc = 0 /\ \E k \in DOMAIN e.selected : e.outputs[k] \notin WrittenPaths(e) /\ e.fresh
                       THEN {V(e, "C16", "documented output path missing after a successful run")} ELSE {})
                 \cup (IF e.rc = 0 /\ e.typechecks = "no"
                       THEN {V(e, "C13", "the package does not type-check without the cff tag after a successful run")} ELSE {})
                 \cup (IF e.rc = 0 /\ e.surviving > 0
                       THEN {V(e, "C13", "a call to a code-generation directive remains in the output")} ELSE {})]
  IN Learn(g1, e, 1)

GenStep(g, e) == IF e.ev = "run" THEN OnRun(g, e) ELSE g
=============================================================================
