----------------------------- MODULE SchedTrace -----------------------------
(***************************************************************************)
(* Validation of hook traces of the real scheduler against Sched.tla.      *)
(*                                                                         *)
(* A hook trace holds, per goroutine (caller, loop, each worker), the      *)
(* events that goroutine logged, in program order.  No order between       *)
(* goroutines is assumed: TLC searches for an interleaving of the          *)
(* per-goroutine sequences that is a behaviour of Sched, with every logged *)
(* value (job, error class, the loop's four counters) equal to the value   *)
(* the spec computes.  Steps the hooks cannot see (close(readyc),          *)
(* close(finishedc), the cancellation of the context) are silent actions.  *)
(*                                                                         *)
(* The file holds many traces; TReset moves to the next one once the       *)
(* current one is fully consumed.                                          *)
(***************************************************************************)
EXTENDS Sched, Json

CONSTANTS TraceFile,
          SYM   \* FALSE: recorded worker goroutines 1..N are the initial workers, replacements follow in order
                \* of birth (the recorder's numbering); TRUE: TLC chooses which goroutine is which (expensive)

TF == JsonDeserialize(TraceFile)
NT == Len(TF.traces)

VARIABLES ti,     \* index of the current trace
          ci, li, \* cursors into the caller's and the loop's event lists
          wi,     \* cursor per worker goroutine
          ninit   \* initial workers not yet identified with a recorded goroutine
tvars == <<vars, ti, ci, li, wi, ninit>>

T == TF.traces[ti]
CE == T.caller
LE == T.loop
NWk == Len(T.workers)
WE(w) == IF w <= NWk THEN T.workers[w] ELSE <<>>

StateFor(t) ==
  /\ nJ = t.nj /\ nW = t.n /\ coe = t.coe
  /\ deps = [j \in Jobs |-> IF j <= t.nj THEN t.deps[j] ELSE <<>>]
  /\ outcome = [j \in Jobs |-> "ok"]     \* unused: outcomes come from the w_end / w_dying events
  /\ jctx = [j \in Jobs |-> IF j <= t.nj /\ j <= Len(t.jctx) THEN t.jctx[j] ELSE 1]
  /\ ctx = "live" /\ ctx2 = "live"
  /\ cpc = 1 /\ cres = <<"none">>
  /\ enq = <<>> /\ enqClosed = FALSE /\ donec = <<>> /\ readyClosed = FALSE /\ finClosed = FALSE
  /\ lpc = "sel" /\ ready = <<>> /\ ongoing = 0 /\ pending = 0 /\ waiting = 0 /\ enqOpen = TRUE
  /\ remaining = [j \in Jobs |-> 0] /\ consumers = [j \in Jobs |-> <<>>]
  /\ jdone = [j \in Jobs |-> FALSE] /\ jerr = [j \in Jobs |-> NOERR] /\ invalid = [j \in Jobs |-> FALSE]
  /\ serr = <<>>
  /\ wpc = [w \in Workers |-> IF ~SYM /\ w <= t.n THEN "recv" ELSE "unborn"]      \* SYM: see TClaim
  /\ wjob = [w \in Workers |-> 0] /\ wres = [w \in Workers |-> NOERR] /\ nextW = t.n + 1
  /\ started = [j \in Jobs |-> 0] /\ endst = [j \in Jobs |-> "none"] /\ doomedH = {}
  /\ owner = [j \in Jobs |-> "caller"] /\ ctxAtClose = FALSE

StateForP(t) ==
  /\ nJ' = t.nj /\ nW' = t.n /\ coe' = t.coe
  /\ deps' = [j \in Jobs |-> IF j <= t.nj THEN t.deps[j] ELSE <<>>]
  /\ outcome' = [j \in Jobs |-> "ok"]     \* unused: outcomes come from the w_end / w_dying events
  /\ jctx' = [j \in Jobs |-> IF j <= t.nj /\ j <= Len(t.jctx) THEN t.jctx[j] ELSE 1]
  /\ ctx' = "live" /\ ctx2' = "live"
  /\ cpc' = 1 /\ cres' = <<"none">>
  /\ enq' = <<>> /\ enqClosed' = FALSE /\ donec' = <<>> /\ readyClosed' = FALSE /\ finClosed' = FALSE
  /\ lpc' = "sel" /\ ready' = <<>> /\ ongoing' = 0 /\ pending' = 0 /\ waiting' = 0 /\ enqOpen' = TRUE
  /\ remaining' = [j \in Jobs |-> 0] /\ consumers' = [j \in Jobs |-> <<>>]
  /\ jdone' = [j \in Jobs |-> FALSE] /\ jerr' = [j \in Jobs |-> NOERR] /\ invalid' = [j \in Jobs |-> FALSE]
  /\ serr' = <<>>
  /\ wpc' = [w \in Workers |-> IF ~SYM /\ w <= t.n THEN "recv" ELSE "unborn"]
  /\ wjob' = [w \in Workers |-> 0] /\ wres' = [w \in Workers |-> NOERR] /\ nextW' = t.n + 1
  /\ started' = [j \in Jobs |-> 0] /\ endst' = [j \in Jobs |-> "none"] /\ doomedH' = {}
  /\ owner' = [j \in Jobs |-> "caller"] /\ ctxAtClose' = FALSE

TInit == /\ ti = 1 /\ ci = 1 /\ li = 1 /\ wi = [w \in Workers |-> 1]
         /\ ninit = IF SYM /\ NT >= 1 THEN TF.traces[1].n ELSE 0
         /\ IF NT >= 1 THEN StateFor(TF.traces[1])
            ELSE StateFor([nj |-> 0, n |-> 1, coe |-> FALSE, deps |-> <<>>, jctx |-> <<>>])

Live == ti <= NT
CNext(e) == Live /\ ci <= Len(CE) /\ CE[ci].ev = e /\ ci' = ci + 1
LNext(e) == Live /\ li <= Len(LE) /\ LE[li].ev = e /\ li' = li + 1
WNext(w, e) == Live /\ wi[w] <= Len(WE(w)) /\ WE(w)[wi[w]].ev = e /\ wi' = [wi EXCEPT ![w] = @ + 1]

\* the loop logs its four counters after every select arm
Counters == LET e == LE[li] IN pending' = e.p /\ ongoing' = e.o /\ waiting' = e.w /\ Len(ready') = e.r

\* error classes as logged (nil, INV, CTX, X, E) against the spec's tokens
ClassOf(tok) == CASE tok = NOERR -> "nil" [] tok = CTXERR -> "CTX" [] tok = INVERR -> "INV"
                  [] tok[1] = "X" -> "X" [] OTHER -> "E"
\* A job body may itself return a context error; the hook then logs CTX for a body error.
SameClass(tok, cls) == ClassOf(tok) = cls \/ (ClassOf(tok) = "E" /\ cls \in {"CTX", "X"})

\* ---- caller
TCallerBegin == CNext("c_enq_begin") /\ CE[ci].job = cpc /\ CE[ci].deps = deps[cpc]
                /\ UNCHANGED <<vars, ti, li, wi, ninit>>
TCallerEnq == CNext("c_enq") /\ cpc = CE[ci].job /\ CallerEnqueue /\ UNCHANGED <<ti, li, wi, ninit>>
TCallerClose == CNext("c_close") /\ CallerWaitClose /\ UNCHANGED <<ti, li, wi, ninit>>
\* The cancellation of the context is not logged by the scheduler's hooks.  Nothing but the
\* worker's check and Wait reads the context, so it is enough to let it happen immediately
\* before the first step that observes it done.
TCallerRetCtx == /\ CNext("c_ret_ctx") /\ cpc = nJ + 2 /\ cres' = <<"ctx">> /\ cpc' = nJ + 3 /\ ctx' = "done" /\ UNCHANGED ctx2
                 /\ UNCHANGED <<inVars, chanVars, loopVars, jobVars, wrkVars, histVars, ti, li, wi, ninit>>
TCallerRetFin == /\ CNext("c_ret_fin") /\ UNCHANGED <<ti, li, wi, ninit>>
                 /\ \/ CallerWaitFin
                    \/ ctx = "live" /\ ctx' = "done" /\ UNCHANGED ctx2 /\ CallerWaitFinAs("done")
                 /\ (CE[ci].err = "nil") = (cres' = <<"nil">>)

\* ---- loop
TDispatch(w) == /\ LNext("l_dispatch") /\ WNext(w, "w_recv")
                /\ LE[li].job = WE(w)[wi[w]].job /\ ready # <<>> /\ Head(ready) = LE[li].job
                /\ LoopDispatch(w) /\ Counters /\ UNCHANGED <<ti, ci, ninit>>
TRecvEnq == /\ LNext("l_recv_enq") /\ enq # <<>> /\ Head(enq) = LE[li].job
            /\ LoopRecvEnqueue /\ Counters /\ UNCHANGED <<ti, ci, wi, ninit>>
TRecvClosed == LNext("l_recv_closed") /\ LoopRecvClosed /\ Counters /\ UNCHANGED <<ti, ci, wi, ninit>>
TRecvDone == /\ LNext("l_recv_done") /\ donec # <<>>
             /\ Head(donec)[1] = LE[li].job /\ SameClass(Head(donec)[2], LE[li].err)
             /\ LoopRecvDone /\ Counters /\ UNCHANGED <<ti, ci, wi, ninit>>
\* the ticker arm changes nothing; the logged counters must be the current ones
TTick == /\ LNext("l_tick") /\ lpc = "sel"
         /\ LE[li].p = pending /\ LE[li].o = ongoing /\ LE[li].w = waiting /\ LE[li].r = Len(ready)
         /\ UNCHANGED <<vars, ti, ci, wi, ninit>>
TDrainRecv == LNext("l_drain_recv") /\ LoopDrainRecv /\ UNCHANGED <<ti, ci, wi, ninit>>
TDrainEnd == LNext("l_drain_end") /\ LoopDrainEnd /\ UNCHANGED <<ti, ci, wi, ninit>>
\* close(readyc) and close(finishedc) are not logged: silent, in this order, after l_drain_end
TCloseReady == Live /\ LoopCloseReady /\ UNCHANGED <<ti, ci, li, wi, ninit>>
TCloseFin == Live /\ LoopCloseFin /\ UNCHANGED <<ti, ci, li, wi, ninit>>
TLoopExit == LNext("l_exit") /\ lpc = "exit" /\ UNCHANGED <<vars, ti, ci, wi, ninit>>

\* ---- workers
TWBegin(w) == WNext(w, "w_begin") /\ wpc[w] # "unborn" /\ UNCHANGED <<vars, ti, ci, li, ninit>>
TWStart(w) == WNext(w, "w_start") /\ WorkerCheck(w) /\ wpc'[w] = "run" /\ UNCHANGED <<ti, ci, li, ninit>>
TWSkipCtx(w) == /\ WNext(w, "w_skip_ctx") /\ WorkerCheckAs(w, "done")
                /\ IF jctx[wjob[w]] = 2 THEN ctx2' = "done" /\ UNCHANGED ctx ELSE ctx' = "done" /\ UNCHANGED ctx2
                /\ UNCHANGED <<ti, ci, li, ninit>>
TWSkipInv(w) == WNext(w, "w_skip_inv") /\ WorkerCheck(w) /\ wres'[w] = INVERR /\ UNCHANGED <<ti, ci, li, ninit>>
TWEnd(w) == /\ WNext(w, "w_end")
            /\ WorkerRunEnd(w, IF WE(w)[wi[w]].err = "nil" THEN "ok" ELSE "err")
            /\ UNCHANGED <<ti, ci, li, ninit>>
TWSent(w) == WNext(w, "w_sent") /\ WorkerSend(w) /\ UNCHANGED <<ti, ci, li, ninit>>
TWDying(w) == WNext(w, "w_dying") /\ WorkerRunEnd(w, "goexit") /\ UNCHANGED <<ti, ci, li, ninit>>
\* Which recorded goroutine is an initial worker and which the replacement of which dying worker is not
\* recorded: a recorded goroutine that has not been identified yet is claimed as one of the N initial workers
\* (TClaim, silent), or comes to life as the replacement started by some w_dsent.
TClaim(w) == /\ Live /\ ninit > 0 /\ wpc[w] = "unborn" /\ w <= NWk
             /\ wpc' = [wpc EXCEPT ![w] = "recv"] /\ ninit' = ninit - 1
             /\ UNCHANGED <<inVars, ctx, ctx2, callVars, chanVars, loopVars, jobVars, wjob, wres, nextW, histVars, ti, ci, li, wi>>
TWDSent(w) == /\ WNext(w, "w_dsent") /\ UNCHANGED <<ti, ci, li, ninit>>
              /\ IF SYM THEN \E r \in Workers : r <= NWk /\ WorkerDSendTo(w, r) ELSE WorkerDSend(w)
TWExit(w) == WNext(w, "w_exit") /\ WorkerExit(w) /\ UNCHANGED <<ti, ci, li, ninit>>

AllConsumed == /\ ci = Len(CE) + 1 /\ li = Len(LE) + 1
               /\ \A w \in Workers : wi[w] = Len(WE(w)) + 1

\* A fully consumed trace of a finished run must have brought the spec to its quiescent state
\* when the real run was complete (the driver only keeps traces of runs that became quiet).
TReset == /\ Live /\ AllConsumed
          /\ PrintT(<<"TRACE-ACCEPTED", ti, T.run>>)
          /\ ti' = ti + 1 /\ ci' = 1 /\ li' = 1 /\ wi' = [w \in Workers |-> 1]
          /\ ninit' = IF SYM /\ ti + 1 <= NT THEN TF.traces[ti + 1].n ELSE 0
          /\ IF ti + 1 <= NT THEN StateForP(TF.traces[ti + 1])
             ELSE UNCHANGED vars

TNext == \/ TCallerBegin \/ TCallerEnq \/ TCallerClose \/ TCallerRetCtx \/ TCallerRetFin
         \/ TRecvEnq \/ TRecvClosed \/ TRecvDone \/ TTick \/ TDrainRecv \/ TDrainEnd
         \/ TCloseReady \/ TCloseFin \/ TLoopExit
         \/ \E w \in Workers : \/ TClaim(w) \/ TDispatch(w) \/ TWBegin(w) \/ TWStart(w) \/ TWSkipCtx(w) \/ TWSkipInv(w)
                               \/ TWEnd(w) \/ TWSent(w) \/ TWDying(w) \/ TWDSent(w) \/ TWExit(w)
         \/ TReset

TSpec == TInit /\ [][TNext]_tvars

=============================================================================
