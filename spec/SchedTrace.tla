----------------------------- MODULE SchedTrace -----------------------------
(***************************************************************************)
(* Validation of hook traces of the real scheduler against Sched.tla.      *)
(*                                                                         *)
(* A hook trace holds, per goroutine (caller, loop, each worker), the      *)
(* events that goroutine logged, in program order.  No order between       *)
(* goroutines is assumed: TLC searches for an interleaving of the          *)
(* per-goroutine sequences that is a behaviour of Sched, with every logged *)
(* value (job, error class, the loop's four counters) equal to the value   *)
(* the spec computes.  Steps the hooks cannot see (close(readyc),          *)
(* close(finishedc), the cancellation of the context) are silent actions.  *)
(*                                                                         *)
(* The file holds many traces; TReset moves to the next one once the       *)
(* current one is fully consumed.                                          *)
(***************************************************************************)
EXTENDS Sched, Json

CONSTANT TraceFile

TF == JsonDeserialize(TraceFile)
NT == Len(TF.traces)

VARIABLES ti,     \* index of the current trace
          ci, li, \* cursors into the caller's and the loop's event lists
          wi      \* cursor per worker goroutine
tvars == <<vars, ti, ci, li, wi>>

T == TF.traces[ti]
CE == T.caller
LE == T.loop
NWk == Len(T.workers)
WE(w) == IF w <= NWk THEN T.workers[w] ELSE <<>>

StateFor(t) ==
  /\ nJ = t.nj /\ nW = t.n /\ coe = t.coe
  /\ deps = [j \in Jobs |-> IF j <= t.nj THEN t.deps[j] ELSE <<>>]
  /\ outcome = [j \in Jobs |-> "ok"]     \* unused: outcomes come from the w_end / w_dying events
  /\ jctx = [j \in Jobs |-> IF j <= t.nj /\ j <= Len(t.jctx) THEN t.jctx[j] ELSE 1]
  /\ ctx = "live" /\ ctx2 = "live"
  /\ cpc = 1 /\ cres = <<"none">>
  /\ enq = <<>> /\ enqClosed = FALSE /\ donec = <<>> /\ readyClosed = FALSE /\ finClosed = FALSE
  /\ lpc = "sel" /\ ready = <<>> /\ ongoing = 0 /\ pending = 0 /\ waiting = 0 /\ enqOpen = TRUE
  /\ remaining = [j \in Jobs |-> 0] /\ consumers = [j \in Jobs |-> <<>>]
  /\ jdone = [j \in Jobs |-> FALSE] /\ jerr = [j \in Jobs |-> NOERR] /\ invalid = [j \in Jobs |-> FALSE]
  /\ serr = <<>>
  /\ wpc = [w \in Workers |-> IF w <= t.n THEN "recv" ELSE "unborn"]
  /\ wjob = [w \in Workers |-> 0] /\ wres = [w \in Workers |-> NOERR] /\ nextW = t.n + 1
  /\ started = [j \in Jobs |-> 0] /\ endst = [j \in Jobs |-> "none"] /\ doomedH = {}
  /\ owner = [j \in Jobs |-> "caller"] /\ ctxAtClose = FALSE

StateForP(t) ==
  /\ nJ' = t.nj /\ nW' = t.n /\ coe' = t.coe
  /\ deps' = [j \in Jobs |-> IF j <= t.nj THEN t.deps[j] ELSE <<>>]
  /\ outcome' = [j \in Jobs |-> "ok"]     \* unused: outcomes come from the w_end / w_dying events
  /\ jctx' = [j \in Jobs |-> IF j <= t.nj /\ j <= Len(t.jctx) THEN t.jctx[j] ELSE 1]
  /\ ctx' = "live" /\ ctx2' = "live"
  /\ cpc' = 1 /\ cres' = <<"none">>
  /\ enq' = <<>> /\ enqClosed' = FALSE /\ donec' = <<>> /\ readyClosed' = FALSE /\ finClosed' = FALSE
  /\ lpc' = "sel" /\ ready' = <<>> /\ ongoing' = 0 /\ pending' = 0 /\ waiting' = 0 /\ enqOpen' = TRUE
  /\ remaining' = [j \in Jobs |-> 0] /\ consumers' = [j \in Jobs |-> <<>>]
  /\ jdone' = [j \in Jobs |-> FALSE] /\ jerr' = [j \in Jobs |-> NOERR] /\ invalid' = [j \in Jobs |-> FALSE]
  /\ serr' = <<>>
  /\ wpc' = [w \in Workers |-> IF w <= t.n THEN "recv" ELSE "unborn"]
  /\ wjob' = [w \in Workers |-> 0] /\ wres' = [w \in Workers |-> NOERR] /\ nextW' = t.n + 1
  /\ started' = [j \in Jobs |-> 0] /\ endst' = [j \in Jobs |-> "none"] /\ doomedH' = {}
  /\ owner' = [j \in Jobs |-> "caller"] /\ ctxAtClose' = FALSE

TInit == /\ ti = 1 /\ ci = 1 /\ li = 1 /\ wi = [w \in Workers |-> 1]
         /\ IF NT >= 1 THEN StateFor(TF.traces[1])
            ELSE StateFor([nj |-> 0, n |-> 1, coe |-> FALSE, deps |-> <<>>, jctx |-> <<>>])

Live == ti <= NT
CNext(e) == Live /\ ci <= Len(CE) /\ CE[ci].ev = e /\ ci' = ci + 1
LNext(e) == Live /\ li <= Len(LE) /\ LE[li].ev = e /\ li' = li + 1
WNext(w, e) == Live /\ wi[w] <= Len(WE(w)) /\ WE(w)[wi[w]].ev = e /\ wi' = [wi EXCEPT ![w] = @ + 1]

\* the loop logs its four counters after every select arm
Counters == LET e == LE[li] IN pending' = e.p /\ ongoing' = e.o /\ waiting' = e.w /\ Len(ready') = e.r

\* error classes as logged (nil, INV, CTX, X, E) against the spec's tokens
ClassOf(tok) == CASE tok = NOERR -> "nil" [] tok = CTXERR -> "CTX" [] tok = INVERR -> "INV"
                  [] tok[1] = "X" -> "X" [] OTHER -> "E"
\* A job body may itself return a context error; the hook then logs CTX for a body error.
SameClass(tok, cls) == ClassOf(tok) = cls \/ (ClassOf(tok) = "E" /\ cls \in {"CTX", "X"})

\* ---- caller
TCallerBegin == CNext("c_enq_begin") /\ CE[ci].job = cpc /\ CE[ci].deps = deps[cpc]
                /\ UNCHANGED <<vars, ti, li, wi>>
TCallerEnq == CNext("c_enq") /\ cpc = CE[ci].job /\ CallerEnqueue /\ UNCHANGED <<ti, li, wi>>
TCallerClose == CNext("c_close") /\ CallerWaitClose /\ UNCHANGED <<ti, li, wi>>
\* The cancellation of the context is not logged by the scheduler's hooks.  Nothing but the
\* worker's check and Wait reads the context, so it is enough to let it happen immediately
\* before the first step that observes it done.
TCallerRetCtx == /\ CNext("c_ret_ctx") /\ cpc = nJ + 2 /\ cres' = <<"ctx">> /\ cpc' = nJ + 3 /\ ctx' = "done" /\ UNCHANGED ctx2
                 /\ UNCHANGED <<inVars, chanVars, loopVars, jobVars, wrkVars, histVars, ti, li, wi>>
TCallerRetFin == /\ CNext("c_ret_fin") /\ UNCHANGED <<ti, li, wi>>
                 /\ \/ CallerWaitFin
                    \/ ctx = "live" /\ ctx' = "done" /\ UNCHANGED ctx2 /\ CallerWaitFinAs("done")
                 /\ (CE[ci].err = "nil") = (cres' = <<"nil">>)

\* ---- loop
TDispatch(w) == /\ LNext("l_dispatch") /\ WNext(w, "w_recv")
                /\ LE[li].job = WE(w)[wi[w]].job /\ ready # <<>> /\ Head(ready) = LE[li].job
                /\ LoopDispatch(w) /\ Counters /\ UNCHANGED <<ti, ci>>
TRecvEnq == /\ LNext("l_recv_enq") /\ enq # <<>> /\ Head(enq) = LE[li].job
            /\ LoopRecvEnqueue /\ Counters /\ UNCHANGED <<ti, ci, wi>>
TRecvClosed == LNext("l_recv_closed") /\ LoopRecvClosed /\ Counters /\ UNCHANGED <<ti, ci, wi>>
TRecvDone == /\ LNext("l_recv_done") /\ donec # <<>>
             /\ Head(donec)[1] = LE[li].job /\ SameClass(Head(donec)[2], LE[li].err)
             /\ LoopRecvDone /\ Counters /\ UNCHANGED <<ti, ci, wi>>
\* the ticker arm changes nothing; the logged counters must be the current ones
TTick == /\ LNext("l_tick") /\ lpc = "sel"
         /\ LE[li].p = pending /\ LE[li].o = ongoing /\ LE[li].w = waiting /\ LE[li].r = Len(ready)
         /\ UNCHANGED <<vars, ti, ci, wi>>
TDrainRecv == LNext("l_drain_recv") /\ LoopDrainRecv /\ UNCHANGED <<ti, ci, wi>>
TDrainEnd == LNext("l_drain_end") /\ LoopDrainEnd /\ UNCHANGED <<ti, ci, wi>>
\* close(readyc) and close(finishedc) are not logged: silent, in this order, after l_drain_end
TCloseReady == Live /\ LoopCloseReady /\ UNCHANGED <<ti, ci, li, wi>>
TCloseFin == Live /\ LoopCloseFin /\ UNCHANGED <<ti, ci, li, wi>>
TLoopExit == LNext("l_exit") /\ lpc = "exit" /\ UNCHANGED <<vars, ti, ci, wi>>

\* ---- workers
TWBegin(w) == WNext(w, "w_begin") /\ wpc[w] # "unborn" /\ UNCHANGED <<vars, ti, ci, li>>
TWStart(w) == WNext(w, "w_start") /\ WorkerCheck(w) /\ wpc'[w] = "run" /\ UNCHANGED <<ti, ci, li>>
TWSkipCtx(w) == /\ WNext(w, "w_skip_ctx") /\ WorkerCheckAs(w, "done")
                /\ IF jctx[wjob[w]] = 2 THEN ctx2' = "done" /\ UNCHANGED ctx ELSE ctx' = "done" /\ UNCHANGED ctx2
                /\ UNCHANGED <<ti, ci, li>>
TWSkipInv(w) == WNext(w, "w_skip_inv") /\ WorkerCheck(w) /\ wres'[w] = INVERR /\ UNCHANGED <<ti, ci, li>>
TWEnd(w) == /\ WNext(w, "w_end")
            /\ WorkerRunEnd(w, IF WE(w)[wi[w]].err = "nil" THEN "ok" ELSE "err")
            /\ UNCHANGED <<ti, ci, li>>
TWSent(w) == WNext(w, "w_sent") /\ WorkerSend(w) /\ UNCHANGED <<ti, ci, li>>
TWDying(w) == WNext(w, "w_dying") /\ WorkerRunEnd(w, "goexit") /\ UNCHANGED <<ti, ci, li>>
TWDSent(w) == WNext(w, "w_dsent") /\ WorkerDSend(w) /\ UNCHANGED <<ti, ci, li>>
TWExit(w) == WNext(w, "w_exit") /\ WorkerExit(w) /\ UNCHANGED <<ti, ci, li>>

AllConsumed == /\ ci = Len(CE) + 1 /\ li = Len(LE) + 1
               /\ \A w \in Workers : wi[w] = Len(WE(w)) + 1

\* A fully consumed trace of a finished run must have brought the spec to its quiescent state
\* when the real run was complete (the driver only keeps traces of runs that became quiet).
TReset == /\ Live /\ AllConsumed
          /\ PrintT(<<"TRACE-ACCEPTED", ti, T.run>>)
          /\ ti' = ti + 1 /\ ci' = 1 /\ li' = 1 /\ wi' = [w \in Workers |-> 1]
          /\ IF ti + 1 <= NT THEN StateForP(TF.traces[ti + 1])
             ELSE UNCHANGED vars

TNext == \/ TCallerBegin \/ TCallerEnq \/ TCallerClose \/ TCallerRetCtx \/ TCallerRetFin
         \/ TRecvEnq \/ TRecvClosed \/ TRecvDone \/ TTick \/ TDrainRecv \/ TDrainEnd
         \/ TCloseReady \/ TCloseFin \/ TLoopExit
         \/ \E w \in Workers : \/ TDispatch(w) \/ TWBegin(w) \/ TWStart(w) \/ TWSkipCtx(w) \/ TWSkipInv(w)
                               \/ TWEnd(w) \/ TWSent(w) \/ TWDying(w) \/ TWDSent(w) \/ TWExit(w)
         \/ TReset

TSpec == TInit /\ [][TNext]_tvars

=============================================================================
