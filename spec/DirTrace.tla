------------------------------ MODULE DirTrace ------------------------------
(***************************************************************************)
(* Drives the monitor DirSys with the events recorded from executions of   *)
(* freshly generated Flow / Parallel code (harness/pkg/h).  The file holds *)
(* many executions one after the other; each starts with a "reset" line    *)
(* carrying the abstract program and the scenario.  Linear in the length   *)
(* of the file.                                                            *)
(***************************************************************************)
EXTENDS DirSys, Json

CONSTANT TraceFile
Trace == ndJsonDeserialize(TraceFile)

VARIABLES l, m, viol, nexec
tvars == <<l, m, viol, nexec>>

Empty == [name |-> "", dir |-> "flow", ntypes |-> 0, params |-> <<>>, results |-> <<>>, units |-> <<>>,
          nargsexpr |-> 0, leaves |-> 0, instr |-> FALSE, hasconc |-> FALSE, coemode |-> "none",
          autoins |-> FALSE, mode |-> "base"]

TInit == l = 1 /\ m = MonInit(Empty, 1, FALSE, 0) /\ viol = {} /\ nexec = 0

E == Trace[l]

TStep ==
  /\ l <= Len(Trace) /\ l' = l + 1
  /\ IF E.ev = "reset"
     THEN /\ m' = MonInit(E.prog, E.sc.effconc, E.sc.effcoe, E.g)
          /\ viol' = IF Cardinality(viol) > 60 THEN viol ELSE viol \cup m.viol
          /\ nexec' = nexec + 1
     ELSE /\ m' = MonStep(m, E)
          /\ UNCHANGED <<viol, nexec>>

TDone == /\ l = Len(Trace) + 1 /\ l' = l + 1
         /\ PrintT(<<"TRACE-DONE", Len(Trace), nexec, ToJson(viol \cup m.viol)>>)
         /\ UNCHANGED <<m, viol, nexec>>

TSpec == TInit /\ [][TStep \/ TDone]_tvars
Consumed == TLCGet("stats").diameter >= Len(Trace) + 2
=============================================================================
