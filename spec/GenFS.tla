------------------------------- MODULE GenFS -------------------------------
(***************************************************************************)
(* The cff tool and its user as a file-system state machine (C16 output    *)
(* paths, C17 determinism), in the spec -> code direction.                 *)
(*                                                                         *)
(* GenPipeline.tla is a monitor: it judges invocations the harness happens *)
(* to make.  This module is the generator of histories: a package of       *)
(* directive-bearing files (one of them a _test.go file) in one of two     *)
(* versions each, the tool invoked on the whole package, on a selection    *)
(* (-file=F ...), or on one file with another output path (-file=F=OUT),   *)
(* in base or source-map mode; between invocations the user edits a source *)
(* file, deletes an output, or an older output (longer / shorter than what *)
(* the tool would write now) lies in the way.                              *)
(*                                                                         *)
(* The abstract content of an output path is what the contract says it is: *)
(*    <<"absent">>, <<"gen", f, src, mode>>  (the text the tool derives    *)
(*    from file f of the package whose sources are src, in that mode), or  *)
(*    <<"old", kind, c>> (an older text planted over content c).           *)
(* Gen* actions change the documented output paths of the selected files   *)
(* and nothing else, whatever was there before.                            *)
(*                                                                         *)
(* TLC's simulator prints behaviours of this module (hist); the harness    *)
(* (tools/gen_checks.py history_replay) performs each step on a real       *)
(* package with the real cff binary and compares, after every step, every  *)
(* path of the package directory with `out`: "gen" contents against a      *)
(* reference generation from scratch of the same sources.                  *)
(***************************************************************************)
EXTENDS Integers, Sequences, FiniteSets, TLC, Json

CONSTANTS Files,      \* directive-bearing source files
          Modes,      \* generation modes
          Depth       \* length of a history

Alt == "alt_out.go"
OutOf(f) == f \o ">gen"                \* the harness maps this to foo_gen.go / foo_gen_test.go
Paths == {OutOf(f) : f \in Files} \cup {Alt}

VARIABLES src,    \* src[f] \in 1..2: the version of source file f
          out,    \* out[p]: abstract content of output path p
          hist,   \* the operations so far (what the harness replays)
          done    \* the complete history has been printed (simulation only)
vars == <<src, out, hist, done>>

Absent == <<"absent">>
Gen(f, m) == <<"gen", f, src, m>>

Init == /\ src = [f \in Files |-> 1]
        /\ out = [p \in Paths |-> Absent]
        /\ hist = <<>>
        /\ done = FALSE

\* every entry of hist carries the state the step leads to: the harness compares the real directory with it
Op(o) == hist' = Append(hist, o @@ [post |-> out', srcs |-> src'])

\* cff PKG : every file of the package
GenAll(m) == /\ out' = [p \in Paths |-> IF \E f \in Files : p = OutOf(f)
                                        THEN Gen(CHOOSE f \in Files : p = OutOf(f), m) ELSE out[p]]
             /\ UNCHANGED src
             /\ Op([op |-> "gen", files |-> <<>>, alt |-> "", mode |-> m])

\* cff -file=F1 -file=F2 ... PKG : only the selected files, in the order given
GenSel(sel, m) == /\ out' = [p \in Paths |-> IF \E i \in DOMAIN sel : p = OutOf(sel[i])
                                             THEN Gen(sel[CHOOSE i \in DOMAIN sel : p = OutOf(sel[i])], m) ELSE out[p]]
                  /\ UNCHANGED src
                  /\ Op([op |-> "gen", files |-> sel, alt |-> "", mode |-> m])

\* cff -file=F=alt_out.go PKG
GenAlt(f, m) == /\ out' = [out EXCEPT ![Alt] = Gen(f, m)]
                /\ UNCHANGED src
                /\ Op([op |-> "gen", files |-> <<f>>, alt |-> Alt, mode |-> m])

\* the user edits a source file (version 2 = version 1 plus a trailing declaration, or a changed task body)
Edit(f) == /\ src' = [src EXCEPT ![f] = 3 - @]
           /\ UNCHANGED out
           /\ Op([op |-> "edit", file |-> f])

\* an output is deleted
Remove(p) == /\ out[p] # Absent
             /\ out' = [out EXCEPT ![p] = Absent]
             /\ UNCHANGED src
             /\ Op([op |-> "remove", path |-> p])

\* an older output lies where the tool will write: the present text plus trailing declarations, or only its head
Plant(p, kind) == /\ out[p][1] = "gen"
                  /\ out' = [out EXCEPT ![p] = <<"old", kind, out[p]>>]
                  /\ UNCHANGED src
                  /\ Op([op |-> "plant", path |-> p, kind |-> kind])

Sels == {<<f>> : f \in Files} \cup {<<f, g>> : f, g \in Files}
Step == /\ Len(hist) < Depth
        /\ UNCHANGED done
        /\ \/ \E m \in Modes : GenAll(m)
           \/ \E m \in Modes : \E s \in {x \in Sels : Len(x) = 1 \/ x[1] # x[2]} : GenSel(s, m)
           \/ \E m \in Modes : \E f \in Files : GenAlt(f, m)
           \/ \E f \in Files : Edit(f)
           \/ \E p \in Paths : Remove(p)
           \/ \E p \in Paths : \E k \in {"longer", "shorter"} : Plant(p, k)

\* for the simulator: a complete history is printed by the one step that follows it (TLC evaluates an
\* invariant on every successor it generates, an action only when it is taken or the sole successor)
Finish == /\ Len(hist) = Depth /\ ~done
          /\ PrintT(<<"HISTORY", ToJson(hist)>>)
          /\ done' = TRUE /\ UNCHANGED <<src, out, hist>>
Next == Step \/ Finish

Spec == Init /\ [][Next]_vars

\* ---- what the contract implies (checked exhaustively by TLC for small Depth) ----
\* Whatever the history, right after a generation the selected outputs hold exactly what a generation from
\* scratch of the present sources would put there: nothing of the past (older outputs, earlier modes, earlier
\* selections) survives in them.
Last == hist[Len(hist)]
FunctionOfInput ==
  (hist # <<>> /\ Last.op = "gen") =>
     LET sel == IF Last.files = <<>> THEN Files ELSE {Last.files[i] : i \in DOMAIN Last.files}
     IN \A f \in sel : out[IF Last.alt = "" THEN OutOf(f) ELSE Alt] = Gen(f, Last.mode)
\* generated text never refers to sources other than the present ones after a whole-package run
FreshAfterAll ==
  (hist # <<>> /\ Last.op = "gen" /\ Last.files = <<>>) => \A f \in Files : out[OutOf(f)][3] = src

=============================================================================
