------------------------------- MODULE Sched -------------------------------
(***************************************************************************)
(* The cff job scheduler as implemented in /repo/scheduler/scheduler.go.    *)
(*                                                                         *)
(* One action per step of the code that another goroutine can observe:     *)
(* every arm of the loop's select, every channel operation of a worker,    *)
(* every step of the loop's deferred exit sequence, every step of the      *)
(* caller (Enqueue's send, Wait's close, Wait's two select arms).          *)
(* Line numbers refer to scheduler.go at the commit the hooks were added.  *)
(*                                                                         *)
(* Input (dependency lists, concurrency, error mode, job outcomes) lives   *)
(* in variables so that the same module serves exhaustive model checking   *)
(* (Init enumerates every input up to the bounds) and trace validation     *)
(* (SchedTrace.tla sets them from the recorded run).                       *)
(***************************************************************************)
EXTENDS Integers, Sequences, FiniteSets, TLC, SequencesExt

CONSTANTS MaxJ,       \* jobs are 1..MaxJ, enqueued by the caller in this order
          MaxN,       \* largest Concurrency explored
          G,          \* how many replacement workers may ever be needed (Goexit budget)
          COES,       \* subset of BOOLEAN: ContinueOnError values explored
          CANCEL,     \* BOOLEAN: environment may cancel the context at any instant
          OUTCOMES,   \* subset of {"ok","err","goexit","cancel"}: what a job body may do
          GATED,      \* TRUE = dispatch only while ongoing < N (the code since fix 4f5337d)
          DUPDEPS,    \* TRUE = dependency lists may name the same job twice
          CTX2        \* TRUE = jobs may be enqueued with a second context (Enqueue takes a context per job;
                      \* Wait watches only the first)

Jobs    == 1..MaxJ
MaxW    == MaxN + G
Workers == 1..MaxW

VARIABLES
  \* ---- input, fixed after Init
  nJ, nW, coe, deps, outcome, jctx,
  \* ---- contexts: ctx is the one given to Wait (and to the jobs with jctx = 1), ctx2 the other one
  ctx, ctx2,
  \* ---- caller: cpc \in 1..nJ = next job to Enqueue; nJ+1 = about to call Wait (close);
  \*      nJ+2 = inside Wait's select; nJ+3 = Wait returned.  cres = Wait's result.
  cpc, cres,
  \* ---- channels.  readyc is a rendezvous and has no buffer.
  enq, enqClosed, donec, readyClosed, finClosed,
  \* ---- loop locals (scheduler.go:373-389) and its control point
  lpc, ready, ongoing, pending, waiting, enqOpen,
  \* ---- per-job state owned by the loop (scheduler.go:299-303) and s.err
  remaining, consumers, jdone, jerr, invalid, serr,
  \* ---- workers
  wpc, wjob, wres, nextW,
  \* ---- history, used only by properties and by the refinement mapping
  started, endst, doomedH, owner, ctxAtClose

inVars   == <<nJ, nW, coe, deps, outcome, jctx>>
callVars == <<cpc, cres>>
chanVars == <<enq, enqClosed, donec, readyClosed, finClosed>>
loopVars == <<lpc, ready, ongoing, pending, waiting, enqOpen>>
jobVars  == <<remaining, consumers, jdone, jerr, invalid, serr>>
wrkVars  == <<wpc, wjob, wres, nextW>>
histVars == <<started, endst, doomedH, owner, ctxAtClose>>
vars == <<inVars, ctx, ctx2, callVars, chanVars, loopVars, jobVars, wrkVars, histVars>>

\* Errors are tokens.
ErrOf(j)  == <<"E", j>>     \* the error value job j's body returns
ExitOf(j) == <<"X", 0>>     \* "job exited unexpectedly" (the error does not name the job)
CTXERR    == <<"CTX", 0>>   \* the context's error
INVERR    == <<"INV", 0>>   \* the internal sentinel errJobInvalid
NOERR     == <<"nil", 0>>

AJobs == 1..nJ                                   \* the jobs of this run
SeqOfSet(S) == SetToSortSeq(S, LAMBDA a, b : a < b)
RangeOf(s) == {s[i] : i \in DOMAIN s}

\* All dependency lists job j may be given: every subset of earlier jobs in
\* increasing order, and (DUPDEPS) the same with one element repeated.
DepChoices(j) ==
  LET base == {SeqOfSet(S) : S \in SUBSET (1..(j-1))}
  IN IF DUPDEPS
     THEN base \cup UNION {{Append(s, s[i]) : i \in DOMAIN s} : s \in base}
     ELSE base

InitBase ==
  /\ nJ = MaxJ
  /\ nW \in 1..MaxN
  /\ coe \in COES
  /\ deps \in [Jobs -> UNION {DepChoices(j) : j \in Jobs}]
  /\ \A j \in Jobs : deps[j] \in DepChoices(j)
  /\ outcome \in [Jobs -> OUTCOMES]
  /\ ctx = "live" /\ ctx2 = "live"
  /\ cpc = 1 /\ cres = <<"none">>
  /\ enq = <<>> /\ enqClosed = FALSE /\ donec = <<>> /\ readyClosed = FALSE /\ finClosed = FALSE
  /\ lpc = "sel" /\ ready = <<>> /\ ongoing = 0 /\ pending = 0 /\ waiting = 0 /\ enqOpen = TRUE
  /\ remaining = [j \in Jobs |-> 0] /\ consumers = [j \in Jobs |-> <<>>]
  /\ jdone = [j \in Jobs |-> FALSE] /\ jerr = [j \in Jobs |-> NOERR] /\ invalid = [j \in Jobs |-> FALSE]
  /\ serr = <<>>
  /\ wpc = [w \in Workers |-> IF w <= nW THEN "recv" ELSE "unborn"]
  /\ wjob = [w \in Workers |-> 0] /\ wres = [w \in Workers |-> NOERR] /\ nextW = nW + 1
  /\ started = [j \in Jobs |-> 0] /\ endst = [j \in Jobs |-> "none"] /\ doomedH = {}
  /\ owner = [j \in Jobs |-> "caller"] /\ ctxAtClose = FALSE

Init == InitBase /\ jctx \in [Jobs -> IF CTX2 THEN {1, 2} ELSE {1}]

----------------------------------------------------------------------------
(* Environment: cancellation of the context.                               *)

NRunning == Cardinality({w \in Workers : wpc[w] = "run"})
EndedJ(j) == endst[j] # "none"

\* doomedH records, at the instant of cancellation, the jobs the property C09
\* says can never start any more (see JobSys.tla).
DoomedNowAll == {j \in AJobs : started[j] = 0 /\
                  (j >= cpc \/ (\E d \in RangeOf(deps[j]) : ~EndedJ(d)) \/ NRunning = nW)}
DoomedNowFor(c) == {j \in DoomedNowAll : jctx[j] = c}
DoomedNow == doomedH \cup DoomedNowFor(1)

Cancel ==
  /\ CANCEL /\ ctx = "live" /\ ctx' = "done"
  /\ doomedH' = DoomedNow
  /\ UNCHANGED <<inVars, ctx2, callVars, chanVars, loopVars, jobVars, wrkVars, started, endst, owner, ctxAtClose>>

Cancel2 ==
  /\ CANCEL /\ CTX2 /\ ctx2 = "live" /\ ctx2' = "done"
  /\ doomedH' = doomedH \cup DoomedNowFor(2)
  /\ UNCHANGED <<inVars, ctx, callVars, chanVars, loopVars, jobVars, wrkVars, started, endst, owner, ctxAtClose>>

----------------------------------------------------------------------------
(* Caller.                                                                  *)

\* Enqueue (scheduler.go:314-327): the only shared step is the send on enqueuec (cap 1).
CallerEnqueue ==
  /\ cpc \in AJobs /\ Len(enq) < 1 /\ ~enqClosed
  /\ enq' = Append(enq, cpc) /\ cpc' = cpc + 1
  /\ owner' = [owner EXCEPT ![cpc] = "chan"]
  /\ UNCHANGED <<inVars, ctx, ctx2, cres, enqClosed, donec, readyClosed, finClosed, loopVars, jobVars, wrkVars, started, endst, doomedH, ctxAtClose>>

\* Wait, line 519: close(s.enqueuec)
CallerWaitClose ==
  /\ cpc = nJ + 1 /\ enqClosed' = TRUE /\ cpc' = nJ + 2
  /\ ctxAtClose' = (ctx = "done")
  /\ UNCHANGED <<inVars, ctx, ctx2, cres, enq, donec, readyClosed, finClosed, loopVars, jobVars, wrkVars, started, endst, doomedH, owner>>

\* Wait, lines 521-522: case <-ctx.Done()
CallerWaitCtx ==
  /\ cpc = nJ + 2 /\ ctx = "done" /\ cres' = <<"ctx">> /\ cpc' = nJ + 3
  /\ UNCHANGED <<inVars, ctx, ctx2, chanVars, loopVars, jobVars, wrkVars, histVars>>

\* Wait, lines 523-532: case <-s.finishedc; c is the value of the context Wait observes
CallerWaitFinAs(c) ==
  /\ cpc = nJ + 2 /\ finClosed
  /\ cres' = IF serr # <<>> THEN <<"errs", serr>> ELSE IF c = "done" THEN <<"ctx">> ELSE <<"nil">>
  /\ cpc' = nJ + 3
  /\ UNCHANGED <<inVars, chanVars, loopVars, jobVars, wrkVars, histVars>>
CallerWaitFin == CallerWaitFinAs(ctx) /\ UNCHANGED <<ctx, ctx2>>

----------------------------------------------------------------------------
(* Scheduler loop (scheduler.go:340-509).                                   *)

\* The exit test at line 505 is evaluated at the end of every iteration.
LoopAfter(p, eo) == IF p = 0 /\ ~eo THEN "drain" ELSE "sel"

\* select arm 1, lines 409-414: hand Front(ready) to a worker blocked in `range readyc`.
LoopDispatch(w) ==
  /\ lpc = "sel" /\ ready # <<>> /\ wpc[w] = "recv" /\ ~readyClosed
  /\ (GATED => ongoing < nW)
  /\ wjob' = [wjob EXCEPT ![w] = Head(ready)] /\ wpc' = [wpc EXCEPT ![w] = "check"]
  /\ ready' = Tail(ready) /\ ongoing' = ongoing + 1
  /\ lpc' = LoopAfter(pending, enqOpen)
  /\ owner' = [owner EXCEPT ![Head(ready)] = "worker"]
  /\ UNCHANGED <<inVars, ctx, ctx2, callVars, chanVars, pending, waiting, enqOpen, jobVars, wres, nextW, started, endst, doomedH, ctxAtClose>>

RECURSIVE AddDeps(_, _, _, _, _)
\* lines 430-439: fold over the dependency list ds of job j;
\* yields <<consumers, remaining of j, invalid of j>>
AddDeps(ds, j, cons, rem, inv) ==
  IF ds = <<>> THEN <<cons, rem, inv>>
  ELSE LET d == Head(ds) IN
       IF jdone[d]
       THEN AddDeps(Tail(ds), j, cons, rem, inv \/ (jerr[d] # NOERR))
       ELSE AddDeps(Tail(ds), j, [cons EXCEPT ![d] = Append(@, j)], rem + 1, inv)

\* select arm 2, lines 416-448, a job was received
LoopRecvEnqueue ==
  /\ lpc = "sel" /\ enqOpen /\ enq # <<>>
  /\ LET j == Head(enq)
         r == AddDeps(deps[j], j, consumers, 0, FALSE)
     IN /\ enq' = Tail(enq)
        /\ consumers' = r[1]
        /\ remaining' = [remaining EXCEPT ![j] = r[2]]
        /\ invalid' = [invalid EXCEPT ![j] = r[3]]
        /\ pending' = pending + 1
        /\ IF r[2] = 0 THEN ready' = Append(ready, j) /\ waiting' = waiting
                       ELSE ready' = ready /\ waiting' = waiting + 1
        /\ lpc' = LoopAfter(pending + 1, enqOpen)
        /\ owner' = [owner EXCEPT ![j] = "loop"]
  /\ UNCHANGED <<inVars, ctx, ctx2, callVars, enqClosed, donec, readyClosed, finClosed, ongoing, enqOpen, jdone, jerr, serr, wrkVars, started, endst, doomedH, ctxAtClose>>

\* select arm 2, lines 420-423, the channel was closed
LoopRecvClosed ==
  /\ lpc = "sel" /\ enqOpen /\ enq = <<>> /\ enqClosed
  /\ enqOpen' = FALSE
  /\ lpc' = LoopAfter(pending, FALSE)
  /\ UNCHANGED <<inVars, ctx, ctx2, callVars, chanVars, ready, ongoing, pending, waiting, jobVars, wrkVars, histVars>>

RECURSIVE Notify(_, _, _, _)
\* lines 479-485; yields <<remaining, ready, waiting>>
Notify(cs, rem, rdy, wt) ==
  IF cs = <<>> THEN <<rem, rdy, wt>>
  ELSE LET c == Head(cs)
           r2 == [rem EXCEPT ![c] = @ - 1]
       IN IF r2[c] = 0 THEN Notify(Tail(cs), r2, Append(rdy, c), wt - 1)
                       ELSE Notify(Tail(cs), r2, rdy, wt)

\* select arm 3, lines 450-485
LoopRecvDone ==
  /\ lpc = "sel" /\ donec # <<>>
  /\ LET res == Head(donec)
         j == res[1]
         e == res[2]
     IN /\ donec' = Tail(donec)
        /\ jdone' = [jdone EXCEPT ![j] = TRUE]
        /\ pending' = pending - 1 /\ ongoing' = ongoing - 1
        /\ owner' = [owner EXCEPT ![j] = "loop"]
        /\ IF e # NOERR /\ ~coe
           THEN \* lines 462-465: fail fast
                /\ jerr' = [jerr EXCEPT ![j] = e]
                /\ serr' = <<e>>
                /\ lpc' = "drain"
                /\ UNCHANGED <<invalid, remaining, ready, waiting>>
           ELSE LET inv2 == IF e # NOERR
                            THEN [c \in Jobs |-> invalid[c] \/ c \in RangeOf(consumers[j])]
                            ELSE invalid
                    nt == Notify(consumers[j], remaining, ready, waiting)
                IN /\ jerr' = [jerr EXCEPT ![j] = e]
                   /\ serr' = IF e # NOERR /\ e # INVERR THEN Append(serr, e) ELSE serr
                   /\ invalid' = inv2
                   /\ remaining' = nt[1] /\ ready' = nt[2] /\ waiting' = nt[3]
                   /\ lpc' = LoopAfter(pending - 1, enqOpen)
  /\ UNCHANGED <<inVars, ctx, ctx2, callVars, enq, enqClosed, readyClosed, finClosed, enqOpen, consumers, wrkVars, started, endst, doomedH, ctxAtClose>>

\* deferred drain, lines 357-360: for range s.enqueuec {}
LoopDrainRecv ==
  /\ lpc = "drain" /\ enq # <<>> /\ enq' = Tail(enq)
  /\ UNCHANGED <<inVars, ctx, ctx2, callVars, enqClosed, donec, readyClosed, finClosed, loopVars, jobVars, wrkVars, histVars>>

LoopDrainEnd ==
  /\ lpc = "drain" /\ enq = <<>> /\ enqClosed /\ lpc' = "closeR"
  /\ UNCHANGED <<inVars, ctx, ctx2, callVars, chanVars, ready, ongoing, pending, waiting, enqOpen, jobVars, wrkVars, histVars>>

\* line 342: close(s.readyc)
LoopCloseReady ==
  /\ lpc = "closeR" /\ readyClosed' = TRUE /\ lpc' = "closeF"
  /\ UNCHANGED <<inVars, ctx, ctx2, callVars, enq, enqClosed, donec, finClosed, ready, ongoing, pending, waiting, enqOpen, jobVars, wrkVars, histVars>>

\* line 341: close(s.finishedc)
LoopCloseFin ==
  /\ lpc = "closeF" /\ finClosed' = TRUE /\ lpc' = "exit"
  /\ UNCHANGED <<inVars, ctx, ctx2, callVars, enq, enqClosed, donec, readyClosed, ready, ongoing, pending, waiting, enqOpen, jobVars, wrkVars, histVars>>

----------------------------------------------------------------------------
(* Workers (scheduler.go:128-158).                                          *)

\* line 141: range readyc ends because the channel was closed
WorkerExit(w) ==
  /\ wpc[w] = "recv" /\ readyClosed /\ wpc' = [wpc EXCEPT ![w] = "exited"]
  /\ UNCHANGED <<inVars, ctx, ctx2, callVars, chanVars, loopVars, jobVars, wjob, wres, nextW, histVars>>

\* lines 145-153: context check, then invalid check, then run.  c is the value of the context
\* the worker observes (WorkerCheck: the current one).
WorkerCheckAs(w, c) ==
  /\ wpc[w] = "check"
  /\ LET j == wjob[w] IN
     IF c = "done" THEN /\ wres' = [wres EXCEPT ![w] = CTXERR] /\ wpc' = [wpc EXCEPT ![w] = "send"]
                        /\ UNCHANGED started
     ELSE IF invalid[j] THEN /\ wres' = [wres EXCEPT ![w] = INVERR] /\ wpc' = [wpc EXCEPT ![w] = "send"]
                             /\ UNCHANGED started
     ELSE /\ wpc' = [wpc EXCEPT ![w] = "run"] /\ started' = [started EXCEPT ![j] = @ + 1]
          /\ UNCHANGED wres
  /\ UNCHANGED <<inVars, callVars, chanVars, loopVars, jobVars, wjob, nextW, endst, doomedH, owner, ctxAtClose>>
CtxOfJob(j) == IF j \in Jobs /\ jctx[j] = 2 THEN ctx2 ELSE ctx
WorkerCheck(w) == WorkerCheckAs(w, CtxOfJob(wjob[w])) /\ UNCHANGED <<ctx, ctx2>>

\* line 152: the job body ends with outcome o:
\*   "ok" (returns nil), "err" (returns an error), "goexit" (runtime.Goexit, the
\*   deferred function at 133-139 takes over), "cancel" (cancels the context, returns nil)
WorkerRunEnd(w, o) ==
  /\ wpc[w] = "run"
  /\ LET j == wjob[w] IN
     /\ wres' = [wres EXCEPT ![w] = CASE o = "ok" -> NOERR
                                      [] o = "cancel" -> NOERR
                                      [] o = "err" -> ErrOf(j)
                                      [] o = "goexit" -> ExitOf(j)]
     /\ endst' = [endst EXCEPT ![j] = CASE o \in {"ok", "cancel"} -> "ok"
                                        [] o = "err" -> "err"
                                        [] o = "goexit" -> "exit"]
     /\ wpc' = [wpc EXCEPT ![w] = IF o = "goexit" THEN "dsend" ELSE "send"]
     /\ IF o = "cancel" /\ ctx = "live"
        THEN ctx' = "done" /\ doomedH' = {k \in DoomedNow : k # j} \* j itself has started
        ELSE UNCHANGED <<ctx, doomedH>>
     /\ ctx2' = ctx2
  /\ UNCHANGED <<inVars, callVars, chanVars, loopVars, jobVars, wjob, nextW, started, owner, ctxAtClose>>

\* line 155: donec <- res (cap N); the worker goes back to `range readyc`
WorkerSend(w) ==
  /\ wpc[w] = "send" /\ Len(donec) < nW
  /\ donec' = Append(donec, <<wjob[w], wres[w]>>)
  /\ wpc' = [wpc EXCEPT ![w] = "recv"] /\ wjob' = [wjob EXCEPT ![w] = 0] /\ wres' = [wres EXCEPT ![w] = NOERR]
  /\ owner' = [owner EXCEPT ![wjob[w]] = "chan"]
  /\ UNCHANGED <<inVars, ctx, ctx2, callVars, enq, enqClosed, readyClosed, finClosed, loopVars, jobVars, nextW, started, endst, doomedH, ctxAtClose>>

\* lines 137-138: a dying worker reports the failure and starts its replacement
\* the replacement takes slot r (WorkerDSend: the next unused slot; the trace spec lets TLC choose, because
\* which recorded goroutine is the replacement of which is not recorded)
WorkerDSendTo(w, r) ==
  /\ wpc[w] = "dsend" /\ Len(donec) < nW
  /\ r \in Workers /\ wpc[r] = "unborn"
  /\ donec' = Append(donec, <<wjob[w], wres[w]>>)
  /\ wpc' = [wpc EXCEPT ![w] = "dead", ![r] = "recv"]
  /\ nextW' = nextW + 1
  /\ wjob' = [wjob EXCEPT ![w] = 0] /\ wres' = [wres EXCEPT ![w] = NOERR]
  /\ owner' = [owner EXCEPT ![wjob[w]] = "chan"]
  /\ UNCHANGED <<inVars, ctx, ctx2, callVars, enq, enqClosed, readyClosed, finClosed, loopVars, jobVars,
                 started, endst, doomedH, ctxAtClose>>
WorkerDSend(w) == nextW <= MaxW /\ WorkerDSendTo(w, nextW)      \* nextW <= MaxW: Goexit budget of the model

----------------------------------------------------------------------------
LiveWorkers == {w \in Workers : wpc[w] \notin {"unborn", "dead"}}
AllQuiet == /\ cpc = nJ + 3 /\ lpc = "exit"
            /\ \A w \in LiveWorkers : wpc[w] = "exited"
Finished == AllQuiet /\ UNCHANGED vars

CallerStep == CallerEnqueue \/ CallerWaitClose \/ CallerWaitCtx \/ CallerWaitFin
LoopStep   == \/ \E w \in Workers : LoopDispatch(w)
              \/ LoopRecvEnqueue \/ LoopRecvClosed \/ LoopRecvDone
              \/ LoopDrainRecv \/ LoopDrainEnd \/ LoopCloseReady \/ LoopCloseFin
WorkerStep(w) == WorkerExit(w) \/ WorkerCheck(w) \/ WorkerRunEnd(w, outcome[wjob[w]])
                 \/ WorkerSend(w) \/ WorkerDSend(w)

Next == Cancel \/ Cancel2 \/ CallerStep \/ LoopStep \/ (\E w \in Workers : WorkerStep(w)) \/ Finished

\* Fairness: everything except the environment's Cancel.
Fair == /\ WF_vars(CallerStep) /\ WF_vars(LoopStep) /\ \A w \in Workers : WF_vars(WorkerStep(w))

Spec == Init /\ [][Next]_vars /\ Fair

----------------------------------------------------------------------------
(* Properties.                                                              *)

TypeOK ==
  /\ nW \in 1..MaxN /\ coe \in BOOLEAN /\ ctx \in {"live", "done"}
  /\ cpc \in 1..(nJ + 3)
  /\ Len(enq) <= 1 /\ Len(donec) <= nW
  /\ lpc \in {"sel", "drain", "closeR", "closeF", "exit"}
  /\ \A w \in Workers : wpc[w] \in {"unborn", "recv", "check", "run", "send", "dsend", "dead", "exited"}

\* C01: a job starts at most once and only after every dependency ended ok
DepsBeforeRun == \A j \in AJobs : started[j] <= 1 /\
                    (started[j] = 1 => \A d \in RangeOf(deps[j]) : endst[d] = "ok")

\* C03: never more than Concurrency bodies at once; the pool keeps its size
RunningBound == NRunning <= nW
WorkerPopulation == Cardinality(LiveWorkers) = nW

\* C19 (and the loop's book-keeping in general)
Executing == pending - Len(ready) - waiting
CountsOK == /\ pending >= 0 /\ waiting >= 0 /\ ongoing >= 0 /\ Len(ready) >= 0
            /\ Executing = ongoing
            /\ waiting = Cardinality({j \in AJobs : remaining[j] > 0 /\ ~jdone[j]})
StateReportOK ==
  lpc = "sel" =>
    /\ CountsOK
    /\ Executing >= 0 /\ Executing <= nW          \* 0 <= executing <= Concurrency
    /\ pending <= cpc - 1                         \* never more than were submitted (cpc <= nJ+1 there)
    /\ waiting <= Cardinality({j \in AJobs : j < cpc /\ deps[j] # <<>>})
OngoingBound == ongoing <= nW

\* C05: the caller is never stuck for good.  (Checked together with deadlock freedom.)
Terminates == <>(cpc = nJ + 3)

\* C06: in every state from which nothing but stuttering is possible, every goroutine is gone.
\* TLC's deadlock check does this: Finished is the only action enabled in a terminal state,
\* and it is enabled only if AllQuiet.  LeakFree states the same as an invariant over
\* quiescent states, for configs that switch the deadlock check off.
Quiescent == ~ENABLED (Cancel \/ Cancel2 \/ CallerStep \/ LoopStep \/ \E w \in Workers : WorkerStep(w))
LeakFree == Quiescent => AllQuiet

\* C07
FailedJob(j) == endst[j] \in {"err", "exit"}
TokOfFailed(j) == IF endst[j] = "err" THEN ErrOf(j) ELSE ExitOf(j)
FailFastSound ==
  (~coe /\ cpc = nJ + 3) =>
     /\ cres = <<"nil">> => \A j \in AJobs : started[j] = 1 /\ endst[j] = "ok"
     /\ cres[1] = "errs" => /\ Len(cres[2]) = 1
                            /\ \/ \E j \in AJobs : FailedJob(j) /\ cres[2][1] = TokOfFailed(j)
                               \/ cres[2][1] = CTXERR /\ (ctx = "done" \/ ctx2 = "done")
     /\ cres = <<"ctx">> => ctx = "done"

\* C08
RECURSIVE TransOK(_)
TransOK(j) == \A d \in RangeOf(deps[j]) : endst[d] = "ok" /\ TransOK(d)
NonCtx(s) == SelectSeq(s, LAMBDA e : e # CTXERR)
CoeExact ==
  (coe /\ cpc = nJ + 3 /\ cres[1] \in {"errs", "nil"}) =>
     LET es == IF cres[1] = "errs" THEN cres[2] ELSE <<>>
         F == {j \in AJobs : FailedJob(j)}
     IN /\ Len(NonCtx(es)) = Cardinality(F)
        /\ RangeOf(NonCtx(es)) = {TokOfFailed(j) : j \in F}       \* exactly one entry per failure
        /\ \A j \in F : endst[j] = "err" => Cardinality({i \in DOMAIN es : es[i] = ErrOf(j)}) = 1
        /\ INVERR \notin RangeOf(es)                                \* the sentinel never shows
        /\ Len(es) - Len(NonCtx(es)) <= Cardinality({j \in AJobs : started[j] = 0})
        /\ (Len(es) > Len(NonCtx(es)) => (ctx = "done" \/ ctx2 = "done"))
        /\ \A j \in AJobs : started[j] = 1 => EndedJ(j)             \* the loop waited for everything
        /\ ((ctx = "live" /\ ctx2 = "live") => \A j \in AJobs : (started[j] = 1) = TransOK(j))

\* C09: a worker that has seen the context done never runs the job -- by construction of
\* WorkerCheck; what needs checking is that no doomed job ever starts
NoDoomedStart == \A j \in doomedH : started[j] = 0
CancelledNotNil == (cpc = nJ + 3 /\ cres = <<"nil">>) => ctx = "live" \/ \A j \in AJobs : endst[j] = "ok"

\* C12 (ownership argument): per-job state is written only by the loop while it owns the
\* job; a worker only holds a job between dispatch and send.
Ownership ==
  /\ \A w \in Workers : wpc[w] \in {"check", "run", "send", "dsend"} => owner[wjob[w]] = "worker"
  /\ \A j \in AJobs : owner[j] = "worker" => \E w \in Workers : wjob[w] = j
  /\ \A j \in AJobs : j \in RangeOf(enq) => owner[j] = "chan"

----------------------------------------------------------------------------
(* Refinement: Sched implements the API-level contract JobSys.              *)

JS == INSTANCE JobSys WITH
        J <- MaxJ, nJ <- nJ, N <- nW, coe <- coe, deps <- deps, cls <- [j \in Jobs |-> j],
        sub <- {j \in AJobs : j < cpc},
        st <- [j \in Jobs |-> IF started[j] = 0 THEN "pending"
                               ELSE IF endst[j] = "none" THEN "running" ELSE endst[j]],
        ctxMay <- (ctx = "done"), ctxDone <- (ctx = "done"),
        doomed <- doomedH, jc <- jctx, c2May <- (ctx2 = "done"), c2Done <- (ctx2 = "done"),
        ctxAtCall <- ctxAtClose,
        wait <- IF cpc <= nJ + 1 THEN "open" ELSE IF cpc = nJ + 2 THEN "called" ELSE "returned",
        res <- cres
\* ... and of the counter arithmetic that Apalache proves inductive for unbounded sizes (SchedCounters.tla)
NRecv == Cardinality({j \in AJobs : j < cpc /\ j \notin RangeOf(enq)})
NRecvDeps == Cardinality({j \in AJobs : j < cpc /\ j \notin RangeOf(enq) /\ deps[j] # <<>>})
SC == INSTANCE SchedCounters WITH N <- nW, pending <- pending, rdy <- Len(ready), waiting <- waiting,
                                  ongoing <- ongoing, sub <- NRecv, subdeps <- NRecvDeps
RefinesCounters == SC!CInit /\ [][SC!CNext]_(SC!cvars)

JSNext == \/ \E j \in Jobs : JS!Submit(j) \/ JS!Start(j) \/ \E o \in {"ok", "err", "exit"} : JS!End(j, o)
          \/ \E j \in Jobs : JS!EndCancel(j)
          \/ JS!CancelNow \/ JS!Cancel2Now \/ JS!WaitCall \/ JS!WaitReturn(cres')
Refines == JS!JInit /\ [][JSNext]_(JS!jvars)
=============================================================================
