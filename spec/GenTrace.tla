------------------------------ MODULE GenTrace ------------------------------
(***************************************************************************)
(* Feeds the recorded invocations of the real cff binary (one JSON event   *)
(* per line) to the monitor GenPipeline and prints what it recorded.       *)
(* Linear in the number of invocations.                                    *)
(***************************************************************************)
EXTENDS GenPipeline, Json

CONSTANT TraceFile
Trace == ndJsonDeserialize(TraceFile)

VARIABLES l, g
TInit == l = 1 /\ g = GInit
TStep == /\ l <= Len(Trace) /\ l' = l + 1 /\ g' = GenStep(g, Trace[l])
TDone == /\ l = Len(Trace) + 1 /\ l' = l + 1
         /\ PrintT(<<"TRACE-DONE", Len(Trace), g.nruns, Len(g.H), ToJson(g.viol)>>)
         /\ UNCHANGED g
TSpec == TInit /\ [][TStep \/ TDone]_<<l, g>>
Consumed == TLCGet("stats").diameter >= Len(Trace) + 2
=============================================================================
