--------------------------- MODULE SchedCounters ---------------------------
(***************************************************************************)
(* The arithmetic of the scheduler loop's book-keeping (scheduler.go:       *)
(* pending, ready.Len(), waiting, ongoing), abstracted from everything     *)
(* else, for UNBOUNDED numbers of jobs and workers.                        *)
(*                                                                         *)
(* C19 says about every state report: all counts are non-negative,         *)
(* Pending = Ready + Waiting + executing with 0 <= executing <=            *)
(* Concurrency, Pending <= submitted, Waiting <= submitted-with-deps.      *)
(* IndInv below states that about the loop's variables and is inductive:   *)
(* Apalache discharges  IndInv /\ Next => IndInv'  and  Init => IndInv      *)
(* for arbitrary integers (tools/check C19 runs it when apalache-mc is     *)
(* available), TLC checks on the bounded configurations that Sched.tla     *)
(* refines this module (property RefinesCounters of Sched.tla), and the     *)
(* hook traces assert the same four counters after every loop step of the  *)
(* real scheduler (SchedTrace.tla).                                        *)
(***************************************************************************)
EXTENDS Integers

VARIABLE
  \* @type: Int;
  N

\* N: Concurrency (>= 1).  pending: jobs received and not finished; rdy: ready.Len(); waiting: jobs with
\* outstanding dependencies; ongoing: jobs handed to a worker whose result has not been read; sub: jobs the
\* loop has taken from the enqueue channel; subdeps: those of them that had dependencies.
VARIABLE
  \* @type: Int;
  pending
VARIABLE
  \* @type: Int;
  rdy
VARIABLE
  \* @type: Int;
  waiting
VARIABLE
  \* @type: Int;
  ongoing
VARIABLE
  \* @type: Int;
  sub
VARIABLE
  \* @type: Int;
  subdeps

\* @type: <<Int, Int, Int, Int, Int, Int, Int>>;
cvars == <<N, pending, rdy, waiting, ongoing, sub, subdeps>>

\* N is fixed when the scheduler is created (a variable only so that Sched.tla can instantiate this module
\* with its own, per-behaviour, concurrency)
CInit == N \in Int /\ N >= 1 /\ pending = 0 /\ rdy = 0 /\ waiting = 0 /\ ongoing = 0 /\ sub = 0 /\ subdeps = 0

\* a job arrives all of whose dependencies (if any) have finished: scheduler.go:441-446
EnqReady(hasdeps) ==
  /\ pending' = pending + 1 /\ rdy' = rdy + 1 /\ sub' = sub + 1
  /\ subdeps' = IF hasdeps THEN subdeps + 1 ELSE subdeps
  /\ UNCHANGED <<N, waiting, ongoing>>
\* a job arrives that has to wait: scheduler.go:447
EnqWait ==
  /\ pending' = pending + 1 /\ waiting' = waiting + 1 /\ sub' = sub + 1 /\ subdeps' = subdeps + 1
  /\ UNCHANGED <<N, rdy, ongoing>>
\* dispatch, gated (fix 4f5337d): scheduler.go:409-414
Dispatch ==
  /\ rdy > 0 /\ ongoing < N
  /\ rdy' = rdy - 1 /\ ongoing' = ongoing + 1
  /\ UNCHANGED <<N, pending, waiting, sub, subdeps>>
\* a result is read; k waiting consumers become ready: scheduler.go:450-485
Done(k) ==
  /\ ongoing > 0 /\ k >= 0 /\ k <= waiting
  /\ pending' = pending - 1 /\ ongoing' = ongoing - 1
  /\ waiting' = waiting - k /\ rdy' = rdy + k
  /\ UNCHANGED <<N, sub, subdeps>>
\* after a fail-fast exit the loop only drains the enqueue channel: scheduler.go:357-360
Drain(hasdeps) ==
  /\ sub' = sub + 1 /\ subdeps' = IF hasdeps THEN subdeps + 1 ELSE subdeps
  /\ UNCHANGED <<N, pending, rdy, waiting, ongoing>>

CNext == \/ \E hd \in BOOLEAN : EnqReady(hd) \/ Drain(hd)
         \/ EnqWait \/ Dispatch
         \/ \E k \in 0..waiting : Done(k)

\* C19 on the loop's variables; inductive
IndInv ==
  /\ N \in Int /\ pending \in Int /\ rdy \in Int /\ waiting \in Int /\ ongoing \in Int /\ sub \in Int /\ subdeps \in Int
  /\ N >= 1
  /\ pending >= 0 /\ rdy >= 0 /\ waiting >= 0 /\ ongoing >= 0
  /\ pending = rdy + waiting + ongoing          \* executing = Pending - Ready - Waiting = ongoing
  /\ ongoing <= N                               \* 0 <= executing <= Concurrency
  /\ pending <= sub                             \* never more than were submitted
  /\ waiting <= subdeps /\ subdeps <= sub       \* Waiting <= submitted jobs that have dependencies

CSpec == CInit /\ [][CNext]_cvars
=============================================================================
