---- MODULE Sched_TTrace_1790554387 ----
EXTENDS Sequences, TLCExt, Toolbox, Sched, Naturals, TLC

_expression ==
    LET Sched_TEExpression == INSTANCE Sched_TEExpression
    IN Sched_TEExpression!expression
----

_trace ==
    LET Sched_TETrace == INSTANCE Sched_TETrace
    IN Sched_TETrace!trace
----

_inv ==
    ~(
        TLCGet("level") = Len(_TETrace)
        /\
        waiting = (0)
        /\
        pending = (3)
        /\
        jerr = (<<<<"nil", 0>>, <<"E", 2>>, <<"nil", 0>>, <<"nil", 0>>>>)
        /\
        finClosed = (TRUE)
        /\
        wjob = (<<0, 1>>)
        /\
        ongoing = (3)
        /\
        donec = (<<<<3, <<"nil", 0>>>>, <<4, <<"nil", 0>>>>>>)
        /\
        ready = (<<>>)
        /\
        cpc = (7)
        /\
        consumers = (<<<<>>, <<>>, <<>>, <<>>>>)
        /\
        nJ = (4)
        /\
        ctxAtClose = (FALSE)
        /\
        outcome = (<<"ok", "err", "ok", "ok">>)
        /\
        lpc = ("exit")
        /\
        owner = (<<"worker", "loop", "chan", "chan">>)
        /\
        ctx = ("live")
        /\
        serr = (<<<<"E", 2>>>>)
        /\
        jdone = (<<FALSE, TRUE, FALSE, FALSE>>)
        /\
        enqClosed = (TRUE)
        /\
        doomedH = ({})
        /\
        enq = (<<>>)
        /\
        nW = (2)
        /\
        deps = (<<<<>>, <<>>, <<>>, <<>>>>)
        /\
        started = (<<1, 1, 1, 1>>)
        /\
        wpc = (<<"exited", "send">>)
        /\
        readyClosed = (TRUE)
        /\
        remaining = (<<0, 0, 0, 0>>)
        /\
        cres = (<<"errs", <<<<"E", 2>>>>>>)
        /\
        invalid = (<<FALSE, FALSE, FALSE, FALSE>>)
        /\
        coe = (FALSE)
        /\
        nextW = (3)
        /\
        enqOpen = (TRUE)
        /\
        wres = (<<<<"nil", 0>>, <<"nil", 0>>>>)
        /\
        endst = (<<"ok", "err", "ok", "ok">>)
    )
----

_init ==
    /\ serr = _TETrace[1].serr
    /\ ongoing = _TETrace[1].ongoing
    /\ jdone = _TETrace[1].jdone
    /\ ctxAtClose = _TETrace[1].ctxAtClose
    /\ wres = _TETrace[1].wres
    /\ enq = _TETrace[1].enq
    /\ donec = _TETrace[1].donec
    /\ outcome = _TETrace[1].outcome
    /\ invalid = _TETrace[1].invalid
    /\ deps = _TETrace[1].deps
    /\ cres = _TETrace[1].cres
    /\ enqClosed = _TETrace[1].enqClosed
    /\ enqOpen = _TETrace[1].enqOpen
    /\ pending = _TETrace[1].pending
    /\ started = _TETrace[1].started
    /\ jerr = _TETrace[1].jerr
    /\ wjob = _TETrace[1].wjob
    /\ finClosed = _TETrace[1].finClosed
    /\ readyClosed = _TETrace[1].readyClosed
    /\ nJ = _TETrace[1].nJ
    /\ ready = _TETrace[1].ready
    /\ nW = _TETrace[1].nW
    /\ endst = _TETrace[1].endst
    /\ doomedH = _TETrace[1].doomedH
    /\ remaining = _TETrace[1].remaining
    /\ coe = _TETrace[1].coe
    /\ consumers = _TETrace[1].consumers
    /\ nextW = _TETrace[1].nextW
    /\ cpc = _TETrace[1].cpc
    /\ wpc = _TETrace[1].wpc
    /\ owner = _TETrace[1].owner
    /\ waiting = _TETrace[1].waiting
    /\ ctx = _TETrace[1].ctx
    /\ lpc = _TETrace[1].lpc
----

_next ==
    /\ \E i,j \in DOMAIN _TETrace:
        /\ \/ /\ j = i + 1
              /\ i = TLCGet("level")
        /\ serr  = _TETrace[i].serr
        /\ serr' = _TETrace[j].serr
        /\ ongoing  = _TETrace[i].ongoing
        /\ ongoing' = _TETrace[j].ongoing
        /\ jdone  = _TETrace[i].jdone
        /\ jdone' = _TETrace[j].jdone
        /\ ctxAtClose  = _TETrace[i].ctxAtClose
        /\ ctxAtClose' = _TETrace[j].ctxAtClose
        /\ wres  = _TETrace[i].wres
        /\ wres' = _TETrace[j].wres
        /\ enq  = _TETrace[i].enq
        /\ enq' = _TETrace[j].enq
        /\ donec  = _TETrace[i].donec
        /\ donec' = _TETrace[j].donec
        /\ outcome  = _TETrace[i].outcome
        /\ outcome' = _TETrace[j].outcome
        /\ invalid  = _TETrace[i].invalid
        /\ invalid' = _TETrace[j].invalid
        /\ deps  = _TETrace[i].deps
        /\ deps' = _TETrace[j].deps
        /\ cres  = _TETrace[i].cres
        /\ cres' = _TETrace[j].cres
        /\ enqClosed  = _TETrace[i].enqClosed
        /\ enqClosed' = _TETrace[j].enqClosed
        /\ enqOpen  = _TETrace[i].enqOpen
        /\ enqOpen' = _TETrace[j].enqOpen
        /\ pending  = _TETrace[i].pending
        /\ pending' = _TETrace[j].pending
        /\ started  = _TETrace[i].started
        /\ started' = _TETrace[j].started
        /\ jerr  = _TETrace[i].jerr
        /\ jerr' = _TETrace[j].jerr
        /\ wjob  = _TETrace[i].wjob
        /\ wjob' = _TETrace[j].wjob
        /\ finClosed  = _TETrace[i].finClosed
        /\ finClosed' = _TETrace[j].finClosed
        /\ readyClosed  = _TETrace[i].readyClosed
        /\ readyClosed' = _TETrace[j].readyClosed
        /\ nJ  = _TETrace[i].nJ
        /\ nJ' = _TETrace[j].nJ
        /\ ready  = _TETrace[i].ready
        /\ ready' = _TETrace[j].ready
        /\ nW  = _TETrace[i].nW
        /\ nW' = _TETrace[j].nW
        /\ endst  = _TETrace[i].endst
        /\ endst' = _TETrace[j].endst
        /\ doomedH  = _TETrace[i].doomedH
        /\ doomedH' = _TETrace[j].doomedH
        /\ remaining  = _TETrace[i].remaining
        /\ remaining' = _TETrace[j].remaining
        /\ coe  = _TETrace[i].coe
        /\ coe' = _TETrace[j].coe
        /\ consumers  = _TETrace[i].consumers
        /\ consumers' = _TETrace[j].consumers
        /\ nextW  = _TETrace[i].nextW
        /\ nextW' = _TETrace[j].nextW
        /\ cpc  = _TETrace[i].cpc
        /\ cpc' = _TETrace[j].cpc
        /\ wpc  = _TETrace[i].wpc
        /\ wpc' = _TETrace[j].wpc
        /\ owner  = _TETrace[i].owner
        /\ owner' = _TETrace[j].owner
        /\ waiting  = _TETrace[i].waiting
        /\ waiting' = _TETrace[j].waiting
        /\ ctx  = _TETrace[i].ctx
        /\ ctx' = _TETrace[j].ctx
        /\ lpc  = _TETrace[i].lpc
        /\ lpc' = _TETrace[j].lpc

\* Uncomment the ASSUME below to write the states of the error trace
\* to the given file in Json format. Note that you can pass any tuple
\* to `JsonSerialize`. For example, a sub-sequence of _TETrace.
    \* ASSUME
    \*     LET J == INSTANCE Json
    \*         IN J!JsonSerialize("Sched_TTrace_1790554387.json", _TETrace)

=============================================================================

 Note that you can extract this module `Sched_TEExpression`
  to a dedicated file to reuse `expression` (the module in the 
  dedicated `Sched_TEExpression.tla` file takes precedence 
  over the module `Sched_TEExpression` below).

---- MODULE Sched_TEExpression ----
EXTENDS Sequences, TLCExt, Toolbox, Sched, Naturals, TLC

expression == 
    [
        \* To hide variables of the `Sched` spec from the error trace,
        \* remove the variables below.  The trace will be written in the order
        \* of the fields of this record.
        serr |-> serr
        ,ongoing |-> ongoing
        ,jdone |-> jdone
        ,ctxAtClose |-> ctxAtClose
        ,wres |-> wres
        ,enq |-> enq
        ,donec |-> donec
        ,outcome |-> outcome
        ,invalid |-> invalid
        ,deps |-> deps
        ,cres |-> cres
        ,enqClosed |-> enqClosed
        ,enqOpen |-> enqOpen
        ,pending |-> pending
        ,started |-> started
        ,jerr |-> jerr
        ,wjob |-> wjob
        ,finClosed |-> finClosed
        ,readyClosed |-> readyClosed
        ,nJ |-> nJ
        ,ready |-> ready
        ,nW |-> nW
        ,endst |-> endst
        ,doomedH |-> doomedH
        ,remaining |-> remaining
        ,coe |-> coe
        ,consumers |-> consumers
        ,nextW |-> nextW
        ,cpc |-> cpc
        ,wpc |-> wpc
        ,owner |-> owner
        ,waiting |-> waiting
        ,ctx |-> ctx
        ,lpc |-> lpc
        
        \* Put additional constant-, state-, and action-level expressions here:
        \* ,_stateNumber |-> _TEPosition
        \* ,_serrUnchanged |-> serr = serr'
        
        \* Format the `serr` variable as Json value.
        \* ,_serrJson |->
        \*     LET J == INSTANCE Json
        \*     IN J!ToJson(serr)
        
        \* Lastly, you may build expressions over arbitrary sets of states by
        \* leveraging the _TETrace operator.  For example, this is how to
        \* count the number of times a spec variable changed up to the current
        \* state in the trace.
        \* ,_serrModCount |->
        \*     LET F[s \in DOMAIN _TETrace] ==
        \*         IF s = 1 THEN 0
        \*         ELSE IF _TETrace[s].serr # _TETrace[s-1].serr
        \*             THEN 1 + F[s-1] ELSE F[s-1]
        \*     IN F[_TEPosition - 1]
    ]

=============================================================================



Parsing and semantic processing can take forever if the trace below is long.
 In this case, it is advised to uncomment the module below to deserialize the
 trace from a generated binary file.

\*
\*---- MODULE Sched_TETrace ----
\*EXTENDS IOUtils, Sched, TLC
\*
\*trace == IODeserialize("Sched_TTrace_1790554387.bin", TRUE)
\*
\*=============================================================================
\*

---- MODULE Sched_TETrace ----
EXTENDS Sched, TLC

trace == 
    <<
    ([waiting |-> 0,pending |-> 0,jerr |-> <<<<"nil", 0>>, <<"nil", 0>>, <<"nil", 0>>, <<"nil", 0>>>>,finClosed |-> FALSE,wjob |-> <<0, 0>>,ongoing |-> 0,donec |-> <<>>,ready |-> <<>>,cpc |-> 1,consumers |-> <<<<>>, <<>>, <<>>, <<>>>>,nJ |-> 4,ctxAtClose |-> FALSE,outcome |-> <<"ok", "err", "ok", "ok">>,lpc |-> "sel",owner |-> <<"caller", "caller", "caller", "caller">>,ctx |-> "live",serr |-> <<>>,jdone |-> <<FALSE, FALSE, FALSE, FALSE>>,enqClosed |-> FALSE,doomedH |-> {},enq |-> <<>>,nW |-> 2,deps |-> <<<<>>, <<>>, <<>>, <<>>>>,started |-> <<0, 0, 0, 0>>,wpc |-> <<"recv", "recv">>,readyClosed |-> FALSE,remaining |-> <<0, 0, 0, 0>>,cres |-> <<"none">>,invalid |-> <<FALSE, FALSE, FALSE, FALSE>>,coe |-> FALSE,nextW |-> 3,enqOpen |-> TRUE,wres |-> <<<<"nil", 0>>, <<"nil", 0>>>>,endst |-> <<"none", "none", "none", "none">>]),
    ([waiting |-> 0,pending |-> 0,jerr |-> <<<<"nil", 0>>, <<"nil", 0>>, <<"nil", 0>>, <<"nil", 0>>>>,finClosed |-> FALSE,wjob |-> <<0, 0>>,ongoing |-> 0,donec |-> <<>>,ready |-> <<>>,cpc |-> 2,consumers |-> <<<<>>, <<>>, <<>>, <<>>>>,nJ |-> 4,ctxAtClose |-> FALSE,outcome |-> <<"ok", "err", "ok", "ok">>,lpc |-> "sel",owner |-> <<"chan", "caller", "caller", "caller">>,ctx |-> "live",serr |-> <<>>,jdone |-> <<FALSE, FALSE, FALSE, FALSE>>,enqClosed |-> FALSE,doomedH |-> {},enq |-> <<1>>,nW |-> 2,deps |-> <<<<>>, <<>>, <<>>, <<>>>>,started |-> <<0, 0, 0, 0>>,wpc |-> <<"recv", "recv">>,readyClosed |-> FALSE,remaining |-> <<0, 0, 0, 0>>,cres |-> <<"none">>,invalid |-> <<FALSE, FALSE, FALSE, FALSE>>,coe |-> FALSE,nextW |-> 3,enqOpen |-> TRUE,wres |-> <<<<"nil", 0>>, <<"nil", 0>>>>,endst |-> <<"none", "none", "none", "none">>]),
    ([waiting |-> 0,pending |-> 1,jerr |-> <<<<"nil", 0>>, <<"nil", 0>>, <<"nil", 0>>, <<"nil", 0>>>>,finClosed |-> FALSE,wjob |-> <<0, 0>>,ongoing |-> 0,donec |-> <<>>,ready |-> <<1>>,cpc |-> 2,consumers |-> <<<<>>, <<>>, <<>>, <<>>>>,nJ |-> 4,ctxAtClose |-> FALSE,outcome |-> <<"ok", "err", "ok", "ok">>,lpc |-> "sel",owner |-> <<"loop", "caller", "caller", "caller">>,ctx |-> "live",serr |-> <<>>,jdone |-> <<FALSE, FALSE, FALSE, FALSE>>,enqClosed |-> FALSE,doomedH |-> {},enq |-> <<>>,nW |-> 2,deps |-> <<<<>>, <<>>, <<>>, <<>>>>,started |-> <<0, 0, 0, 0>>,wpc |-> <<"recv", "recv">>,readyClosed |-> FALSE,remaining |-> <<0, 0, 0, 0>>,cres |-> <<"none">>,invalid |-> <<FALSE, FALSE, FALSE, FALSE>>,coe |-> FALSE,nextW |-> 3,enqOpen |-> TRUE,wres |-> <<<<"nil", 0>>, <<"nil", 0>>>>,endst |-> <<"none", "none", "none", "none">>]),
    ([waiting |-> 0,pending |-> 1,jerr |-> <<<<"nil", 0>>, <<"nil", 0>>, <<"nil", 0>>, <<"nil", 0>>>>,finClosed |-> FALSE,wjob |-> <<0, 0>>,ongoing |-> 0,donec |-> <<>>,ready |-> <<1>>,cpc |-> 3,consumers |-> <<<<>>, <<>>, <<>>, <<>>>>,nJ |-> 4,ctxAtClose |-> FALSE,outcome |-> <<"ok", "err", "ok", "ok">>,lpc |-> "sel",owner |-> <<"loop", "chan", "caller", "caller">>,ctx |-> "live",serr |-> <<>>,jdone |-> <<FALSE, FALSE, FALSE, FALSE>>,enqClosed |-> FALSE,doomedH |-> {},enq |-> <<2>>,nW |-> 2,deps |-> <<<<>>, <<>>, <<>>, <<>>>>,started |-> <<0, 0, 0, 0>>,wpc |-> <<"recv", "recv">>,readyClosed |-> FALSE,remaining |-> <<0, 0, 0, 0>>,cres |-> <<"none">>,invalid |-> <<FALSE, FALSE, FALSE, FALSE>>,coe |-> FALSE,nextW |-> 3,enqOpen |-> TRUE,wres |-> <<<<"nil", 0>>, <<"nil", 0>>>>,endst |-> <<"none", "none", "none", "none">>]),
    ([waiting |-> 0,pending |-> 1,jerr |-> <<<<"nil", 0>>, <<"nil", 0>>, <<"nil", 0>>, <<"nil", 0>>>>,finClosed |-> FALSE,wjob |-> <<0, 1>>,ongoing |-> 1,donec |-> <<>>,ready |-> <<>>,cpc |-> 3,consumers |-> <<<<>>, <<>>, <<>>, <<>>>>,nJ |-> 4,ctxAtClose |-> FALSE,outcome |-> <<"ok", "err", "ok", "ok">>,lpc |-> "sel",owner |-> <<"worker", "chan", "caller", "caller">>,ctx |-> "live",serr |-> <<>>,jdone |-> <<FALSE, FALSE, FALSE, FALSE>>,enqClosed |-> FALSE,doomedH |-> {},enq |-> <<2>>,nW |-> 2,deps |-> <<<<>>, <<>>, <<>>, <<>>>>,started |-> <<0, 0, 0, 0>>,wpc |-> <<"recv", "check">>,readyClosed |-> FALSE,remaining |-> <<0, 0, 0, 0>>,cres |-> <<"none">>,invalid |-> <<FALSE, FALSE, FALSE, FALSE>>,coe |-> FALSE,nextW |-> 3,enqOpen |-> TRUE,wres |-> <<<<"nil", 0>>, <<"nil", 0>>>>,endst |-> <<"none", "none", "none", "none">>]),
    ([waiting |-> 0,pending |-> 2,jerr |-> <<<<"nil", 0>>, <<"nil", 0>>, <<"nil", 0>>, <<"nil", 0>>>>,finClosed |-> FALSE,wjob |-> <<0, 1>>,ongoing |-> 1,donec |-> <<>>,ready |-> <<2>>,cpc |-> 3,consumers |-> <<<<>>, <<>>, <<>>, <<>>>>,nJ |-> 4,ctxAtClose |-> FALSE,outcome |-> <<"ok", "err", "ok", "ok">>,lpc |-> "sel",owner |-> <<"worker", "loop", "caller", "caller">>,ctx |-> "live",serr |-> <<>>,jdone |-> <<FALSE, FALSE, FALSE, FALSE>>,enqClosed |-> FALSE,doomedH |-> {},enq |-> <<>>,nW |-> 2,deps |-> <<<<>>, <<>>, <<>>, <<>>>>,started |-> <<0, 0, 0, 0>>,wpc |-> <<"recv", "check">>,readyClosed |-> FALSE,remaining |-> <<0, 0, 0, 0>>,cres |-> <<"none">>,invalid |-> <<FALSE, FALSE, FALSE, FALSE>>,coe |-> FALSE,nextW |-> 3,enqOpen |-> TRUE,wres |-> <<<<"nil", 0>>, <<"nil", 0>>>>,endst |-> <<"none", "none", "none", "none">>]),
    ([waiting |-> 0,pending |-> 2,jerr |-> <<<<"nil", 0>>, <<"nil", 0>>, <<"nil", 0>>, <<"nil", 0>>>>,finClosed |-> FALSE,wjob |-> <<0, 1>>,ongoing |-> 1,donec |-> <<>>,ready |-> <<2>>,cpc |-> 4,consumers |-> <<<<>>, <<>>, <<>>, <<>>>>,nJ |-> 4,ctxAtClose |-> FALSE,outcome |-> <<"ok", "err", "ok", "ok">>,lpc |-> "sel",owner |-> <<"worker", "loop", "chan", "caller">>,ctx |-> "live",serr |-> <<>>,jdone |-> <<FALSE, FALSE, FALSE, FALSE>>,enqClosed |-> FALSE,doomedH |-> {},enq |-> <<3>>,nW |-> 2,deps |-> <<<<>>, <<>>, <<>>, <<>>>>,started |-> <<0, 0, 0, 0>>,wpc |-> <<"recv", "check">>,readyClosed |-> FALSE,remaining |-> <<0, 0, 0, 0>>,cres |-> <<"none">>,invalid |-> <<FALSE, FALSE, FALSE, FALSE>>,coe |-> FALSE,nextW |-> 3,enqOpen |-> TRUE,wres |-> <<<<"nil", 0>>, <<"nil", 0>>>>,endst |-> <<"none", "none", "none", "none">>]),
    ([waiting |-> 0,pending |-> 2,jerr |-> <<<<"nil", 0>>, <<"nil", 0>>, <<"nil", 0>>, <<"nil", 0>>>>,finClosed |-> FALSE,wjob |-> <<2, 1>>,ongoing |-> 2,donec |-> <<>>,ready |-> <<>>,cpc |-> 4,consumers |-> <<<<>>, <<>>, <<>>, <<>>>>,nJ |-> 4,ctxAtClose |-> FALSE,outcome |-> <<"ok", "err", "ok", "ok">>,lpc |-> "sel",owner |-> <<"worker", "worker", "chan", "caller">>,ctx |-> "live",serr |-> <<>>,jdone |-> <<FALSE, FALSE, FALSE, FALSE>>,enqClosed |-> FALSE,doomedH |-> {},enq |-> <<3>>,nW |-> 2,deps |-> <<<<>>, <<>>, <<>>, <<>>>>,started |-> <<0, 0, 0, 0>>,wpc |-> <<"check", "check">>,readyClosed |-> FALSE,remaining |-> <<0, 0, 0, 0>>,cres |-> <<"none">>,invalid |-> <<FALSE, FALSE, FALSE, FALSE>>,coe |-> FALSE,nextW |-> 3,enqOpen |-> TRUE,wres |-> <<<<"nil", 0>>, <<"nil", 0>>>>,endst |-> <<"none", "none", "none", "none">>]),
    ([waiting |-> 0,pending |-> 3,jerr |-> <<<<"nil", 0>>, <<"nil", 0>>, <<"nil", 0>>, <<"nil", 0>>>>,finClosed |-> FALSE,wjob |-> <<2, 1>>,ongoing |-> 2,donec |-> <<>>,ready |-> <<3>>,cpc |-> 4,consumers |-> <<<<>>, <<>>, <<>>, <<>>>>,nJ |-> 4,ctxAtClose |-> FALSE,outcome |-> <<"ok", "err", "ok", "ok">>,lpc |-> "sel",owner |-> <<"worker", "worker", "loop", "caller">>,ctx |-> "live",serr |-> <<>>,jdone |-> <<FALSE, FALSE, FALSE, FALSE>>,enqClosed |-> FALSE,doomedH |-> {},enq |-> <<>>,nW |-> 2,deps |-> <<<<>>, <<>>, <<>>, <<>>>>,started |-> <<0, 0, 0, 0>>,wpc |-> <<"check", "check">>,readyClosed |-> FALSE,remaining |-> <<0, 0, 0, 0>>,cres |-> <<"none">>,invalid |-> <<FALSE, FALSE, FALSE, FALSE>>,coe |-> FALSE,nextW |-> 3,enqOpen |-> TRUE,wres |-> <<<<"nil", 0>>, <<"nil", 0>>>>,endst |-> <<"none", "none", "none", "none">>]),
    ([waiting |-> 0,pending |-> 3,jerr |-> <<<<"nil", 0>>, <<"nil", 0>>, <<"nil", 0>>, <<"nil", 0>>>>,finClosed |-> FALSE,wjob |-> <<2, 1>>,ongoing |-> 2,donec |-> <<>>,ready |-> <<3>>,cpc |-> 5,consumers |-> <<<<>>, <<>>, <<>>, <<>>>>,nJ |-> 4,ctxAtClose |-> FALSE,outcome |-> <<"ok", "err", "ok", "ok">>,lpc |-> "sel",owner |-> <<"worker", "worker", "loop", "chan">>,ctx |-> "live",serr |-> <<>>,jdone |-> <<FALSE, FALSE, FALSE, FALSE>>,enqClosed |-> FALSE,doomedH |-> {},enq |-> <<4>>,nW |-> 2,deps |-> <<<<>>, <<>>, <<>>, <<>>>>,started |-> <<0, 0, 0, 0>>,wpc |-> <<"check", "check">>,readyClosed |-> FALSE,remaining |-> <<0, 0, 0, 0>>,cres |-> <<"none">>,invalid |-> <<FALSE, FALSE, FALSE, FALSE>>,coe |-> FALSE,nextW |-> 3,enqOpen |-> TRUE,wres |-> <<<<"nil", 0>>, <<"nil", 0>>>>,endst |-> <<"none", "none", "none", "none">>]),
    ([waiting |-> 0,pending |-> 3,jerr |-> <<<<"nil", 0>>, <<"nil", 0>>, <<"nil", 0>>, <<"nil", 0>>>>,finClosed |-> FALSE,wjob |-> <<2, 1>>,ongoing |-> 2,donec |-> <<>>,ready |-> <<3>>,cpc |-> 6,consumers |-> <<<<>>, <<>>, <<>>, <<>>>>,nJ |-> 4,ctxAtClose |-> FALSE,outcome |-> <<"ok", "err", "ok", "ok">>,lpc |-> "sel",owner |-> <<"worker", "worker", "loop", "chan">>,ctx |-> "live",serr |-> <<>>,jdone |-> <<FALSE, FALSE, FALSE, FALSE>>,enqClosed |-> TRUE,doomedH |-> {},enq |-> <<4>>,nW |-> 2,deps |-> <<<<>>, <<>>, <<>>, <<>>>>,started |-> <<0, 0, 0, 0>>,wpc |-> <<"check", "check">>,readyClosed |-> FALSE,remaining |-> <<0, 0, 0, 0>>,cres |-> <<"none">>,invalid |-> <<FALSE, FALSE, FALSE, FALSE>>,coe |-> FALSE,nextW |-> 3,enqOpen |-> TRUE,wres |-> <<<<"nil", 0>>, <<"nil", 0>>>>,endst |-> <<"none", "none", "none", "none">>]),
    ([waiting |-> 0,pending |-> 4,jerr |-> <<<<"nil", 0>>, <<"nil", 0>>, <<"nil", 0>>, <<"nil", 0>>>>,finClosed |-> FALSE,wjob |-> <<2, 1>>,ongoing |-> 2,donec |-> <<>>,ready |-> <<3, 4>>,cpc |-> 6,consumers |-> <<<<>>, <<>>, <<>>, <<>>>>,nJ |-> 4,ctxAtClose |-> FALSE,outcome |-> <<"ok", "err", "ok", "ok">>,lpc |-> "sel",owner |-> <<"worker", "worker", "loop", "loop">>,ctx |-> "live",serr |-> <<>>,jdone |-> <<FALSE, FALSE, FALSE, FALSE>>,enqClosed |-> TRUE,doomedH |-> {},enq |-> <<>>,nW |-> 2,deps |-> <<<<>>, <<>>, <<>>, <<>>>>,started |-> <<0, 0, 0, 0>>,wpc |-> <<"check", "check">>,readyClosed |-> FALSE,remaining |-> <<0, 0, 0, 0>>,cres |-> <<"none">>,invalid |-> <<FALSE, FALSE, FALSE, FALSE>>,coe |-> FALSE,nextW |-> 3,enqOpen |-> TRUE,wres |-> <<<<"nil", 0>>, <<"nil", 0>>>>,endst |-> <<"none", "none", "none", "none">>]),
    ([waiting |-> 0,pending |-> 4,jerr |-> <<<<"nil", 0>>, <<"nil", 0>>, <<"nil", 0>>, <<"nil", 0>>>>,finClosed |-> FALSE,wjob |-> <<2, 1>>,ongoing |-> 2,donec |-> <<>>,ready |-> <<3, 4>>,cpc |-> 6,consumers |-> <<<<>>, <<>>, <<>>, <<>>>>,nJ |-> 4,ctxAtClose |-> FALSE,outcome |-> <<"ok", "err", "ok", "ok">>,lpc |-> "sel",owner |-> <<"worker", "worker", "loop", "loop">>,ctx |-> "live",serr |-> <<>>,jdone |-> <<FALSE, FALSE, FALSE, FALSE>>,enqClosed |-> TRUE,doomedH |-> {},enq |-> <<>>,nW |-> 2,deps |-> <<<<>>, <<>>, <<>>, <<>>>>,started |-> <<0, 1, 0, 0>>,wpc |-> <<"run", "check">>,readyClosed |-> FALSE,remaining |-> <<0, 0, 0, 0>>,cres |-> <<"none">>,invalid |-> <<FALSE, FALSE, FALSE, FALSE>>,coe |-> FALSE,nextW |-> 3,enqOpen |-> TRUE,wres |-> <<<<"nil", 0>>, <<"nil", 0>>>>,endst |-> <<"none", "none", "none", "none">>]),
    ([waiting |-> 0,pending |-> 4,jerr |-> <<<<"nil", 0>>, <<"nil", 0>>, <<"nil", 0>>, <<"nil", 0>>>>,finClosed |-> FALSE,wjob |-> <<2, 1>>,ongoing |-> 2,donec |-> <<>>,ready |-> <<3, 4>>,cpc |-> 6,consumers |-> <<<<>>, <<>>, <<>>, <<>>>>,nJ |-> 4,ctxAtClose |-> FALSE,outcome |-> <<"ok", "err", "ok", "ok">>,lpc |-> "sel",owner |-> <<"worker", "worker", "loop", "loop">>,ctx |-> "live",serr |-> <<>>,jdone |-> <<FALSE, FALSE, FALSE, FALSE>>,enqClosed |-> TRUE,doomedH |-> {},enq |-> <<>>,nW |-> 2,deps |-> <<<<>>, <<>>, <<>>, <<>>>>,started |-> <<0, 1, 0, 0>>,wpc |-> <<"send", "check">>,readyClosed |-> FALSE,remaining |-> <<0, 0, 0, 0>>,cres |-> <<"none">>,invalid |-> <<FALSE, FALSE, FALSE, FALSE>>,coe |-> FALSE,nextW |-> 3,enqOpen |-> TRUE,wres |-> <<<<"E", 2>>, <<"nil", 0>>>>,endst |-> <<"none", "err", "none", "none">>]),
    ([waiting |-> 0,pending |-> 4,jerr |-> <<<<"nil", 0>>, <<"nil", 0>>, <<"nil", 0>>, <<"nil", 0>>>>,finClosed |-> FALSE,wjob |-> <<0, 1>>,ongoing |-> 2,donec |-> <<<<2, <<"E", 2>>>>>>,ready |-> <<3, 4>>,cpc |-> 6,consumers |-> <<<<>>, <<>>, <<>>, <<>>>>,nJ |-> 4,ctxAtClose |-> FALSE,outcome |-> <<"ok", "err", "ok", "ok">>,lpc |-> "sel",owner |-> <<"worker", "chan", "loop", "loop">>,ctx |-> "live",serr |-> <<>>,jdone |-> <<FALSE, FALSE, FALSE, FALSE>>,enqClosed |-> TRUE,doomedH |-> {},enq |-> <<>>,nW |-> 2,deps |-> <<<<>>, <<>>, <<>>, <<>>>>,started |-> <<0, 1, 0, 0>>,wpc |-> <<"recv", "check">>,readyClosed |-> FALSE,remaining |-> <<0, 0, 0, 0>>,cres |-> <<"none">>,invalid |-> <<FALSE, FALSE, FALSE, FALSE>>,coe |-> FALSE,nextW |-> 3,enqOpen |-> TRUE,wres |-> <<<<"nil", 0>>, <<"nil", 0>>>>,endst |-> <<"none", "err", "none", "none">>]),
    ([waiting |-> 0,pending |-> 4,jerr |-> <<<<"nil", 0>>, <<"nil", 0>>, <<"nil", 0>>, <<"nil", 0>>>>,finClosed |-> FALSE,wjob |-> <<3, 1>>,ongoing |-> 3,donec |-> <<<<2, <<"E", 2>>>>>>,ready |-> <<4>>,cpc |-> 6,consumers |-> <<<<>>, <<>>, <<>>, <<>>>>,nJ |-> 4,ctxAtClose |-> FALSE,outcome |-> <<"ok", "err", "ok", "ok">>,lpc |-> "sel",owner |-> <<"worker", "chan", "worker", "loop">>,ctx |-> "live",serr |-> <<>>,jdone |-> <<FALSE, FALSE, FALSE, FALSE>>,enqClosed |-> TRUE,doomedH |-> {},enq |-> <<>>,nW |-> 2,deps |-> <<<<>>, <<>>, <<>>, <<>>>>,started |-> <<0, 1, 0, 0>>,wpc |-> <<"check", "check">>,readyClosed |-> FALSE,remaining |-> <<0, 0, 0, 0>>,cres |-> <<"none">>,invalid |-> <<FALSE, FALSE, FALSE, FALSE>>,coe |-> FALSE,nextW |-> 3,enqOpen |-> TRUE,wres |-> <<<<"nil", 0>>, <<"nil", 0>>>>,endst |-> <<"none", "err", "none", "none">>]),
    ([waiting |-> 0,pending |-> 4,jerr |-> <<<<"nil", 0>>, <<"nil", 0>>, <<"nil", 0>>, <<"nil", 0>>>>,finClosed |-> FALSE,wjob |-> <<3, 1>>,ongoing |-> 3,donec |-> <<<<2, <<"E", 2>>>>>>,ready |-> <<4>>,cpc |-> 6,consumers |-> <<<<>>, <<>>, <<>>, <<>>>>,nJ |-> 4,ctxAtClose |-> FALSE,outcome |-> <<"ok", "err", "ok", "ok">>,lpc |-> "sel",owner |-> <<"worker", "chan", "worker", "loop">>,ctx |-> "live",serr |-> <<>>,jdone |-> <<FALSE, FALSE, FALSE, FALSE>>,enqClosed |-> TRUE,doomedH |-> {},enq |-> <<>>,nW |-> 2,deps |-> <<<<>>, <<>>, <<>>, <<>>>>,started |-> <<0, 1, 1, 0>>,wpc |-> <<"run", "check">>,readyClosed |-> FALSE,remaining |-> <<0, 0, 0, 0>>,cres |-> <<"none">>,invalid |-> <<FALSE, FALSE, FALSE, FALSE>>,coe |-> FALSE,nextW |-> 3,enqOpen |-> TRUE,wres |-> <<<<"nil", 0>>, <<"nil", 0>>>>,endst |-> <<"none", "err", "none", "none">>]),
    ([waiting |-> 0,pending |-> 4,jerr |-> <<<<"nil", 0>>, <<"nil", 0>>, <<"nil", 0>>, <<"nil", 0>>>>,finClosed |-> FALSE,wjob |-> <<3, 1>>,ongoing |-> 3,donec |-> <<<<2, <<"E", 2>>>>>>,ready |-> <<4>>,cpc |-> 6,consumers |-> <<<<>>, <<>>, <<>>, <<>>>>,nJ |-> 4,ctxAtClose |-> FALSE,outcome |-> <<"ok", "err", "ok", "ok">>,lpc |-> "sel",owner |-> <<"worker", "chan", "worker", "loop">>,ctx |-> "live",serr |-> <<>>,jdone |-> <<FALSE, FALSE, FALSE, FALSE>>,enqClosed |-> TRUE,doomedH |-> {},enq |-> <<>>,nW |-> 2,deps |-> <<<<>>, <<>>, <<>>, <<>>>>,started |-> <<1, 1, 1, 0>>,wpc |-> <<"run", "run">>,readyClosed |-> FALSE,remaining |-> <<0, 0, 0, 0>>,cres |-> <<"none">>,invalid |-> <<FALSE, FALSE, FALSE, FALSE>>,coe |-> FALSE,nextW |-> 3,enqOpen |-> TRUE,wres |-> <<<<"nil", 0>>, <<"nil", 0>>>>,endst |-> <<"none", "err", "none", "none">>]),
    ([waiting |-> 0,pending |-> 4,jerr |-> <<<<"nil", 0>>, <<"nil", 0>>, <<"nil", 0>>, <<"nil", 0>>>>,finClosed |-> FALSE,wjob |-> <<3, 1>>,ongoing |-> 3,donec |-> <<<<2, <<"E", 2>>>>>>,ready |-> <<4>>,cpc |-> 6,consumers |-> <<<<>>, <<>>, <<>>, <<>>>>,nJ |-> 4,ctxAtClose |-> FALSE,outcome |-> <<"ok", "err", "ok", "ok">>,lpc |-> "sel",owner |-> <<"worker", "chan", "worker", "loop">>,ctx |-> "live",serr |-> <<>>,jdone |-> <<FALSE, FALSE, FALSE, FALSE>>,enqClosed |-> TRUE,doomedH |-> {},enq |-> <<>>,nW |-> 2,deps |-> <<<<>>, <<>>, <<>>, <<>>>>,started |-> <<1, 1, 1, 0>>,wpc |-> <<"send", "run">>,readyClosed |-> FALSE,remaining |-> <<0, 0, 0, 0>>,cres |-> <<"none">>,invalid |-> <<FALSE, FALSE, FALSE, FALSE>>,coe |-> FALSE,nextW |-> 3,enqOpen |-> TRUE,wres |-> <<<<"nil", 0>>, <<"nil", 0>>>>,endst |-> <<"none", "err", "ok", "none">>]),
    ([waiting |-> 0,pending |-> 4,jerr |-> <<<<"nil", 0>>, <<"nil", 0>>, <<"nil", 0>>, <<"nil", 0>>>>,finClosed |-> FALSE,wjob |-> <<0, 1>>,ongoing |-> 3,donec |-> <<<<2, <<"E", 2>>>>, <<3, <<"nil", 0>>>>>>,ready |-> <<4>>,cpc |-> 6,consumers |-> <<<<>>, <<>>, <<>>, <<>>>>,nJ |-> 4,ctxAtClose |-> FALSE,outcome |-> <<"ok", "err", "ok", "ok">>,lpc |-> "sel",owner |-> <<"worker", "chan", "chan", "loop">>,ctx |-> "live",serr |-> <<>>,jdone |-> <<FALSE, FALSE, FALSE, FALSE>>,enqClosed |-> TRUE,doomedH |-> {},enq |-> <<>>,nW |-> 2,deps |-> <<<<>>, <<>>, <<>>, <<>>>>,started |-> <<1, 1, 1, 0>>,wpc |-> <<"recv", "run">>,readyClosed |-> FALSE,remaining |-> <<0, 0, 0, 0>>,cres |-> <<"none">>,invalid |-> <<FALSE, FALSE, FALSE, FALSE>>,coe |-> FALSE,nextW |-> 3,enqOpen |-> TRUE,wres |-> <<<<"nil", 0>>, <<"nil", 0>>>>,endst |-> <<"none", "err", "ok", "none">>]),
    ([waiting |-> 0,pending |-> 4,jerr |-> <<<<"nil", 0>>, <<"nil", 0>>, <<"nil", 0>>, <<"nil", 0>>>>,finClosed |-> FALSE,wjob |-> <<4, 1>>,ongoing |-> 4,donec |-> <<<<2, <<"E", 2>>>>, <<3, <<"nil", 0>>>>>>,ready |-> <<>>,cpc |-> 6,consumers |-> <<<<>>, <<>>, <<>>, <<>>>>,nJ |-> 4,ctxAtClose |-> FALSE,outcome |-> <<"ok", "err", "ok", "ok">>,lpc |-> "sel",owner |-> <<"worker", "chan", "chan", "worker">>,ctx |-> "live",serr |-> <<>>,jdone |-> <<FALSE, FALSE, FALSE, FALSE>>,enqClosed |-> TRUE,doomedH |-> {},enq |-> <<>>,nW |-> 2,deps |-> <<<<>>, <<>>, <<>>, <<>>>>,started |-> <<1, 1, 1, 0>>,wpc |-> <<"check", "run">>,readyClosed |-> FALSE,remaining |-> <<0, 0, 0, 0>>,cres |-> <<"none">>,invalid |-> <<FALSE, FALSE, FALSE, FALSE>>,coe |-> FALSE,nextW |-> 3,enqOpen |-> TRUE,wres |-> <<<<"nil", 0>>, <<"nil", 0>>>>,endst |-> <<"none", "err", "ok", "none">>]),
    ([waiting |-> 0,pending |-> 3,jerr |-> <<<<"nil", 0>>, <<"E", 2>>, <<"nil", 0>>, <<"nil", 0>>>>,finClosed |-> FALSE,wjob |-> <<4, 1>>,ongoing |-> 3,donec |-> <<<<3, <<"nil", 0>>>>>>,ready |-> <<>>,cpc |-> 6,consumers |-> <<<<>>, <<>>, <<>>, <<>>>>,nJ |-> 4,ctxAtClose |-> FALSE,outcome |-> <<"ok", "err", "ok", "ok">>,lpc |-> "drain",owner |-> <<"worker", "loop", "chan", "worker">>,ctx |-> "live",serr |-> <<<<"E", 2>>>>,jdone |-> <<FALSE, TRUE, FALSE, FALSE>>,enqClosed |-> TRUE,doomedH |-> {},enq |-> <<>>,nW |-> 2,deps |-> <<<<>>, <<>>, <<>>, <<>>>>,started |-> <<1, 1, 1, 0>>,wpc |-> <<"check", "run">>,readyClosed |-> FALSE,remaining |-> <<0, 0, 0, 0>>,cres |-> <<"none">>,invalid |-> <<FALSE, FALSE, FALSE, FALSE>>,coe |-> FALSE,nextW |-> 3,enqOpen |-> TRUE,wres |-> <<<<"nil", 0>>, <<"nil", 0>>>>,endst |-> <<"none", "err", "ok", "none">>]),
    ([waiting |-> 0,pending |-> 3,jerr |-> <<<<"nil", 0>>, <<"E", 2>>, <<"nil", 0>>, <<"nil", 0>>>>,finClosed |-> FALSE,wjob |-> <<4, 1>>,ongoing |-> 3,donec |-> <<<<3, <<"nil", 0>>>>>>,ready |-> <<>>,cpc |-> 6,consumers |-> <<<<>>, <<>>, <<>>, <<>>>>,nJ |-> 4,ctxAtClose |-> FALSE,outcome |-> <<"ok", "err", "ok", "ok">>,lpc |-> "closeR",owner |-> <<"worker", "loop", "chan", "worker">>,ctx |-> "live",serr |-> <<<<"E", 2>>>>,jdone |-> <<FALSE, TRUE, FALSE, FALSE>>,enqClosed |-> TRUE,doomedH |-> {},enq |-> <<>>,nW |-> 2,deps |-> <<<<>>, <<>>, <<>>, <<>>>>,started |-> <<1, 1, 1, 0>>,wpc |-> <<"check", "run">>,readyClosed |-> FALSE,remaining |-> <<0, 0, 0, 0>>,cres |-> <<"none">>,invalid |-> <<FALSE, FALSE, FALSE, FALSE>>,coe |-> FALSE,nextW |-> 3,enqOpen |-> TRUE,wres |-> <<<<"nil", 0>>, <<"nil", 0>>>>,endst |-> <<"none", "err", "ok", "none">>]),
    ([waiting |-> 0,pending |-> 3,jerr |-> <<<<"nil", 0>>, <<"E", 2>>, <<"nil", 0>>, <<"nil", 0>>>>,finClosed |-> FALSE,wjob |-> <<4, 1>>,ongoing |-> 3,donec |-> <<<<3, <<"nil", 0>>>>>>,ready |-> <<>>,cpc |-> 6,consumers |-> <<<<>>, <<>>, <<>>, <<>>>>,nJ |-> 4,ctxAtClose |-> FALSE,outcome |-> <<"ok", "err", "ok", "ok">>,lpc |-> "closeR",owner |-> <<"worker", "loop", "chan", "worker">>,ctx |-> "live",serr |-> <<<<"E", 2>>>>,jdone |-> <<FALSE, TRUE, FALSE, FALSE>>,enqClosed |-> TRUE,doomedH |-> {},enq |-> <<>>,nW |-> 2,deps |-> <<<<>>, <<>>, <<>>, <<>>>>,started |-> <<1, 1, 1, 1>>,wpc |-> <<"run", "run">>,readyClosed |-> FALSE,remaining |-> <<0, 0, 0, 0>>,cres |-> <<"none">>,invalid |-> <<FALSE, FALSE, FALSE, FALSE>>,coe |-> FALSE,nextW |-> 3,enqOpen |-> TRUE,wres |-> <<<<"nil", 0>>, <<"nil", 0>>>>,endst |-> <<"none", "err", "ok", "none">>]),
    ([waiting |-> 0,pending |-> 3,jerr |-> <<<<"nil", 0>>, <<"E", 2>>, <<"nil", 0>>, <<"nil", 0>>>>,finClosed |-> FALSE,wjob |-> <<4, 1>>,ongoing |-> 3,donec |-> <<<<3, <<"nil", 0>>>>>>,ready |-> <<>>,cpc |-> 6,consumers |-> <<<<>>, <<>>, <<>>, <<>>>>,nJ |-> 4,ctxAtClose |-> FALSE,outcome |-> <<"ok", "err", "ok", "ok">>,lpc |-> "closeR",owner |-> <<"worker", "loop", "chan", "worker">>,ctx |-> "live",serr |-> <<<<"E", 2>>>>,jdone |-> <<FALSE, TRUE, FALSE, FALSE>>,enqClosed |-> TRUE,doomedH |-> {},enq |-> <<>>,nW |-> 2,deps |-> <<<<>>, <<>>, <<>>, <<>>>>,started |-> <<1, 1, 1, 1>>,wpc |-> <<"send", "run">>,readyClosed |-> FALSE,remaining |-> <<0, 0, 0, 0>>,cres |-> <<"none">>,invalid |-> <<FALSE, FALSE, FALSE, FALSE>>,coe |-> FALSE,nextW |-> 3,enqOpen |-> TRUE,wres |-> <<<<"nil", 0>>, <<"nil", 0>>>>,endst |-> <<"none", "err", "ok", "ok">>]),
    ([waiting |-> 0,pending |-> 3,jerr |-> <<<<"nil", 0>>, <<"E", 2>>, <<"nil", 0>>, <<"nil", 0>>>>,finClosed |-> FALSE,wjob |-> <<0, 1>>,ongoing |-> 3,donec |-> <<<<3, <<"nil", 0>>>>, <<4, <<"nil", 0>>>>>>,ready |-> <<>>,cpc |-> 6,consumers |-> <<<<>>, <<>>, <<>>, <<>>>>,nJ |-> 4,ctxAtClose |-> FALSE,outcome |-> <<"ok", "err", "ok", "ok">>,lpc |-> "closeR",owner |-> <<"worker", "loop", "chan", "chan">>,ctx |-> "live",serr |-> <<<<"E", 2>>>>,jdone |-> <<FALSE, TRUE, FALSE, FALSE>>,enqClosed |-> TRUE,doomedH |-> {},enq |-> <<>>,nW |-> 2,deps |-> <<<<>>, <<>>, <<>>, <<>>>>,started |-> <<1, 1, 1, 1>>,wpc |-> <<"recv", "run">>,readyClosed |-> FALSE,remaining |-> <<0, 0, 0, 0>>,cres |-> <<"none">>,invalid |-> <<FALSE, FALSE, FALSE, FALSE>>,coe |-> FALSE,nextW |-> 3,enqOpen |-> TRUE,wres |-> <<<<"nil", 0>>, <<"nil", 0>>>>,endst |-> <<"none", "err", "ok", "ok">>]),
    ([waiting |-> 0,pending |-> 3,jerr |-> <<<<"nil", 0>>, <<"E", 2>>, <<"nil", 0>>, <<"nil", 0>>>>,finClosed |-> FALSE,wjob |-> <<0, 1>>,ongoing |-> 3,donec |-> <<<<3, <<"nil", 0>>>>, <<4, <<"nil", 0>>>>>>,ready |-> <<>>,cpc |-> 6,consumers |-> <<<<>>, <<>>, <<>>, <<>>>>,nJ |-> 4,ctxAtClose |-> FALSE,outcome |-> <<"ok", "err", "ok", "ok">>,lpc |-> "closeR",owner |-> <<"worker", "loop", "chan", "chan">>,ctx |-> "live",serr |-> <<<<"E", 2>>>>,jdone |-> <<FALSE, TRUE, FALSE, FALSE>>,enqClosed |-> TRUE,doomedH |-> {},enq |-> <<>>,nW |-> 2,deps |-> <<<<>>, <<>>, <<>>, <<>>>>,started |-> <<1, 1, 1, 1>>,wpc |-> <<"recv", "send">>,readyClosed |-> FALSE,remaining |-> <<0, 0, 0, 0>>,cres |-> <<"none">>,invalid |-> <<FALSE, FALSE, FALSE, FALSE>>,coe |-> FALSE,nextW |-> 3,enqOpen |-> TRUE,wres |-> <<<<"nil", 0>>, <<"nil", 0>>>>,endst |-> <<"ok", "err", "ok", "ok">>]),
    ([waiting |-> 0,pending |-> 3,jerr |-> <<<<"nil", 0>>, <<"E", 2>>, <<"nil", 0>>, <<"nil", 0>>>>,finClosed |-> FALSE,wjob |-> <<0, 1>>,ongoing |-> 3,donec |-> <<<<3, <<"nil", 0>>>>, <<4, <<"nil", 0>>>>>>,ready |-> <<>>,cpc |-> 6,consumers |-> <<<<>>, <<>>, <<>>, <<>>>>,nJ |-> 4,ctxAtClose |-> FALSE,outcome |-> <<"ok", "err", "ok", "ok">>,lpc |-> "closeF",owner |-> <<"worker", "loop", "chan", "chan">>,ctx |-> "live",serr |-> <<<<"E", 2>>>>,jdone |-> <<FALSE, TRUE, FALSE, FALSE>>,enqClosed |-> TRUE,doomedH |-> {},enq |-> <<>>,nW |-> 2,deps |-> <<<<>>, <<>>, <<>>, <<>>>>,started |-> <<1, 1, 1, 1>>,wpc |-> <<"recv", "send">>,readyClosed |-> TRUE,remaining |-> <<0, 0, 0, 0>>,cres |-> <<"none">>,invalid |-> <<FALSE, FALSE, FALSE, FALSE>>,coe |-> FALSE,nextW |-> 3,enqOpen |-> TRUE,wres |-> <<<<"nil", 0>>, <<"nil", 0>>>>,endst |-> <<"ok", "err", "ok", "ok">>]),
    ([waiting |-> 0,pending |-> 3,jerr |-> <<<<"nil", 0>>, <<"E", 2>>, <<"nil", 0>>, <<"nil", 0>>>>,finClosed |-> TRUE,wjob |-> <<0, 1>>,ongoing |-> 3,donec |-> <<<<3, <<"nil", 0>>>>, <<4, <<"nil", 0>>>>>>,ready |-> <<>>,cpc |-> 6,consumers |-> <<<<>>, <<>>, <<>>, <<>>>>,nJ |-> 4,ctxAtClose |-> FALSE,outcome |-> <<"ok", "err", "ok", "ok">>,lpc |-> "exit",owner |-> <<"worker", "loop", "chan", "chan">>,ctx |-> "live",serr |-> <<<<"E", 2>>>>,jdone |-> <<FALSE, TRUE, FALSE, FALSE>>,enqClosed |-> TRUE,doomedH |-> {},enq |-> <<>>,nW |-> 2,deps |-> <<<<>>, <<>>, <<>>, <<>>>>,started |-> <<1, 1, 1, 1>>,wpc |-> <<"recv", "send">>,readyClosed |-> TRUE,remaining |-> <<0, 0, 0, 0>>,cres |-> <<"none">>,invalid |-> <<FALSE, FALSE, FALSE, FALSE>>,coe |-> FALSE,nextW |-> 3,enqOpen |-> TRUE,wres |-> <<<<"nil", 0>>, <<"nil", 0>>>>,endst |-> <<"ok", "err", "ok", "ok">>]),
    ([waiting |-> 0,pending |-> 3,jerr |-> <<<<"nil", 0>>, <<"E", 2>>, <<"nil", 0>>, <<"nil", 0>>>>,finClosed |-> TRUE,wjob |-> <<0, 1>>,ongoing |-> 3,donec |-> <<<<3, <<"nil", 0>>>>, <<4, <<"nil", 0>>>>>>,ready |-> <<>>,cpc |-> 7,consumers |-> <<<<>>, <<>>, <<>>, <<>>>>,nJ |-> 4,ctxAtClose |-> FALSE,outcome |-> <<"ok", "err", "ok", "ok">>,lpc |-> "exit",owner |-> <<"worker", "loop", "chan", "chan">>,ctx |-> "live",serr |-> <<<<"E", 2>>>>,jdone |-> <<FALSE, TRUE, FALSE, FALSE>>,enqClosed |-> TRUE,doomedH |-> {},enq |-> <<>>,nW |-> 2,deps |-> <<<<>>, <<>>, <<>>, <<>>>>,started |-> <<1, 1, 1, 1>>,wpc |-> <<"recv", "send">>,readyClosed |-> TRUE,remaining |-> <<0, 0, 0, 0>>,cres |-> <<"errs", <<<<"E", 2>>>>>>,invalid |-> <<FALSE, FALSE, FALSE, FALSE>>,coe |-> FALSE,nextW |-> 3,enqOpen |-> TRUE,wres |-> <<<<"nil", 0>>, <<"nil", 0>>>>,endst |-> <<"ok", "err", "ok", "ok">>]),
    ([waiting |-> 0,pending |-> 3,jerr |-> <<<<"nil", 0>>, <<"E", 2>>, <<"nil", 0>>, <<"nil", 0>>>>,finClosed |-> TRUE,wjob |-> <<0, 1>>,ongoing |-> 3,donec |-> <<<<3, <<"nil", 0>>>>, <<4, <<"nil", 0>>>>>>,ready |-> <<>>,cpc |-> 7,consumers |-> <<<<>>, <<>>, <<>>, <<>>>>,nJ |-> 4,ctxAtClose |-> FALSE,outcome |-> <<"ok", "err", "ok", "ok">>,lpc |-> "exit",owner |-> <<"worker", "loop", "chan", "chan">>,ctx |-> "live",serr |-> <<<<"E", 2>>>>,jdone |-> <<FALSE, TRUE, FALSE, FALSE>>,enqClosed |-> TRUE,doomedH |-> {},enq |-> <<>>,nW |-> 2,deps |-> <<<<>>, <<>>, <<>>, <<>>>>,started |-> <<1, 1, 1, 1>>,wpc |-> <<"exited", "send">>,readyClosed |-> TRUE,remaining |-> <<0, 0, 0, 0>>,cres |-> <<"errs", <<<<"E", 2>>>>>>,invalid |-> <<FALSE, FALSE, FALSE, FALSE>>,coe |-> FALSE,nextW |-> 3,enqOpen |-> TRUE,wres |-> <<<<"nil", 0>>, <<"nil", 0>>>>,endst |-> <<"ok", "err", "ok", "ok">>])
    >>
----


=============================================================================

---- CONFIG Sched_TTrace_1790554387 ----
CONSTANTS
    MaxJ = 4
    MaxN = 2
    G = 0
    COES = { FALSE }
    CANCEL = FALSE
    GATED = FALSE
    DUPDEPS = FALSE
    OUTCOMES = { "ok" , "err" }

INVARIANT
    _inv

CHECK_DEADLOCK
    \* CHECK_DEADLOCK off because of PROPERTY or INVARIANT above.
    FALSE

INIT
    _init

NEXT
    _next

CONSTANT
    _TETrace <- _trace

ALIAS
    _expression
=============================================================================
\* Generated on Mon Sep 28 00:13:28 UTC 2026