------------------------------ MODULE BuildTag ------------------------------
(***************************************************************************)
(* Build-constraint inversion (internal/buildtag.go).                      *)
(*                                                                         *)
(* Expressions over the tags {cff, a, b}:                                  *)
(*      e ::= tag | !e | e && e | e || e                                   *)
(* Flip is invertCffConstraint transcribed case by case (including the     *)
(* special case "!cff -> cff").  The theorem a user relies on (C16): for   *)
(* every assignment of tags the generated file is selected exactly when    *)
(* the source file would be selected with the cff tag flipped:             *)
(*      Eval(Flip(e), s) = Eval(e, s with cff negated).                    *)
(* TLC checks it for every expression with at most MaxLeaves leaves (one   *)
(* initial state per expression) and prints each expression together with  *)
(* Flip(e), so that the real cff can be run on exactly these headers and   *)
(* its output compared with what the spec computes.                        *)
(***************************************************************************)
EXTENDS Integers, Sequences, FiniteSets, TLC, Json

CONSTANTS MaxLeaves,   \* size bound
          DUMP         \* TRUE: print every expression (for the conformance step)

Tags == {"cff", "a", "b"}
T(t)      == [op |-> "tag", t |-> t]
Not(x)    == [op |-> "not", x |-> x]
And(x, y) == [op |-> "and", x |-> x, y |-> y]
Or(x, y)  == [op |-> "or", x |-> x, y |-> y]

\* go/build/constraint rejects a double negation, so "!" is applied to non-negations only
RECURSIVE Exprs(_)
Exprs(n) ==   \* all expressions with exactly n leaves
  IF n = 1 THEN {T(t) : t \in Tags} \cup {Not(T(t)) : t \in Tags}
  ELSE LET bin == UNION {{And(x, y) : x \in Exprs(k), y \in Exprs(n - k)} \cup
                         {Or(x, y) : x \in Exprs(k), y \in Exprs(n - k)} : k \in 1..(n - 1)}
       IN bin \cup {Not(x) : x \in bin}


RECURSIVE Eval(_, _)
Eval(e, s) == CASE e.op = "tag" -> s[e.t]
                [] e.op = "not" -> ~Eval(e.x, s)
                [] e.op = "and" -> Eval(e.x, s) /\ Eval(e.y, s)
                [] e.op = "or"  -> Eval(e.x, s) \/ Eval(e.y, s)

\* invertCffConstraint, buildtag.go:15-37
RECURSIVE Flip(_)
Flip(e) == CASE e.op = "and" -> And(Flip(e.x), Flip(e.y))
             [] e.op = "or"  -> Or(Flip(e.x), Flip(e.y))
             [] e.op = "not" -> IF e.x.op = "tag" /\ e.x.t = "cff" THEN e.x    \* "!cff" -> "cff"
                                ELSE Not(Flip(e.x))
             [] e.op = "tag" -> IF e.t = "cff" THEN Not(e) ELSE e

Assignments == [Tags -> BOOLEAN]
FlipCff(s) == [s EXCEPT !["cff"] = ~@]

\* //go:build syntax, fully parenthesised below the top level
RECURSIVE Str(_)
Str(e) == CASE e.op = "tag" -> e.t
            [] e.op = "not" -> IF e.x.op = "tag" THEN "!" \o e.x.t ELSE "!(" \o Str(e.x) \o ")"
            [] e.op = "and" -> "(" \o Str(e.x) \o " && " \o Str(e.y) \o ")"
            [] e.op = "or"  -> "(" \o Str(e.x) \o " || " \o Str(e.y) \o ")"

RECURSIVE Leaves(_)
Leaves(x) == CASE x.op = "tag" -> 1 [] x.op = "not" -> Leaves(x.x) [] OTHER -> Leaves(x.x) + Leaves(x.y)

\* The expressions are enumerated as a state machine so that TLC's workers share the work: the initial
\* states are the expressions with fewer than MaxLeaves leaves; one step combines such an expression (as the
\* left operand) with another one into a binary expression of at most MaxLeaves leaves, negated or not.
\* Every expression of up to MaxLeaves leaves is reached (each binary one exactly once, from its left operand).
VARIABLES e, phase
Smaller == UNION {Exprs(n) : n \in 1..(MaxLeaves - 1)}
Init == phase = 1 /\ e \in (IF MaxLeaves = 1 THEN Exprs(1) ELSE Smaller)
Next == /\ phase = 1 /\ phase' = 2
        /\ \E y \in Smaller : \E neg \in BOOLEAN : \E op \in {"and", "or"} :
             /\ Leaves(e) + Leaves(y) <= MaxLeaves
             /\ LET bin == IF op = "and" THEN And(e, y) ELSE Or(e, y)
                IN e' = IF neg THEN Not(bin) ELSE bin
Spec == Init /\ [][Next]_<<e, phase>>

\* C16, the build-tag half
FlipCorrect == \A s \in Assignments : Eval(Flip(e), s) = Eval(e, FlipCff(s))
\* the flipped expression stays within what go/build/constraint can print and parse again
NoDoubleNegation == LET RECURSIVE NoNN(_)
                        NoNN(x) == CASE x.op = "tag" -> TRUE
                                     [] x.op = "not" -> x.x.op # "not" /\ NoNN(x.x)
                                     [] OTHER -> NoNN(x.x) /\ NoNN(x.y)
                    IN NoNN(Flip(e))
Dump == DUMP => PrintT(<<"EXPR", Str(e), Str(Flip(e))>>)
=============================================================================
