------------------------------ MODULE Parallel ------------------------------
(***************************************************************************)
(* The code cff generates for one cff.Parallel, transcribed from           *)
(* internal/templates/parallel/{parallel,task,slice,map}.go.tmpl, on top   *)
(* of the scheduler contract (see Flow.tla), including ContinueOnError:    *)
(* with it a failure only invalidates the jobs that depend on the failed   *)
(* one, every other job still runs, and Wait returns all failures.         *)
(*                                                                         *)
(* Jobs: one per Task/Tasks function, one per slice element and map entry  *)
(* (per-iteration copies idx := idx, val := val, key := key), and one per  *)
(* SliceEnd / MapEnd function, depending on all element jobs of its own    *)
(* collection (slice.go.tmpl:36-50, map.go.tmpl:34-48).                    *)
(*                                                                         *)
(* As in Flow.tla every behaviour feeds the API-level events to the        *)
(* monitor DirSys; TLC checks NoViolation and termination for every        *)
(* program of ProgFile, outcome, schedule, concurrency value, value of a   *)
(* non-constant ContinueOnError argument and cancellation instant.         *)
(* Line references: parallel.go.tmpl (PA), task.go.tmpl (PT),              *)
(* slice.go.tmpl (PS), map.go.tmpl (PM).                                   *)
(***************************************************************************)
EXTENDS DirSys, Json

CONSTANTS ProgFile, Concs, CANCEL, OUTS   \* OUTS: outcomes explored for element functions
Progs == ndJsonDeserialize(ProgFile)

VARIABLES
  p, conc, coe,
  cpc, ei,
  js,      \* [instance -> "none" | "queued" | "disp" | "chk" | "running" | "post" | "ok" | "fail" | "inv"]
  jerr, pend,
  ran,     \* [ptask id -> BOOLEAN]
  ctx, stopped,
  serr,    \* sequence of error tokens the loop has collected (s.err)
  ret, m
vars == <<p, conc, coe, cpc, ei, js, jerr, pend, ran, ctx, stopped, serr, ret, m>>

I == Insts(p)
U(id) == UnitOf(p, id)
PTaskIds == {u.id : u \in {x \in Units(p) : x.kind = "ptask"}}
NElems(u) == IF u.len < 0 THEN 0 ELSE u.len

\* enqueue order: units as listed; elements in index order followed by their End job
RECURSIVE EnqOrderOf(_)
ElemSeq(u) == [k \in 1..NElems(u) |-> <<u.id, k - 1>>]
EnqOrderOf(us) ==
  IF us = <<>> THEN <<>>
  ELSE LET u == Head(us) IN
       (CASE u.kind = "ptask" -> <<<<u.id, -1>>>>
          [] IsElem(u) -> ElemSeq(u) \o (IF u.end # 0 THEN <<<<u.end, -1>>>> ELSE <<>>)
          [] OTHER -> <<>>) \o EnqOrderOf(Tail(us))
EnqOrder == EnqOrderOf(p.units)

JobDeps(i) ==
  LET u == U(i[1]) IN
  IF u.kind \in {"send", "mend"}
  THEN UNION {{<<w.id, k>> : k \in 0..(NElems(w) - 1)} : w \in {x \in Units(p) : IsElem(x) /\ x.end = u.id}}
  ELSE {}

Ev(ev) == [ev |-> ev, exec |-> 1, stamp |-> 0, u |-> 0, idx |-> -1, k |-> 0, g |-> 2, toks |-> <<>>, out |-> "",
           kind |-> "", errs |-> <<>>, leaf |-> 0, name |-> "", same |-> FALSE, ctxok |-> TRUE, note |-> ""]
\* every action feeds the monitor with the sequence of events it produces; ParallelTrace.tla matches the
\* same sequences against the events recorded from the real code
RECURSIVE Feed(_, _)
Feed(mon, evs) == IF evs = <<>> THEN mon ELSE Feed(MonStep(mon, Head(evs)), Tail(evs))
EmitSeq(kind, u, errs, same) ==
  [l \in 1..p.leaves |-> [Ev("emit") EXCEPT !.leaf = l, !.kind = kind, !.u = u, !.errs = errs, !.same = same]]
ParEmitSeq(kind, errs, same) == IF p.instr THEN EmitSeq(kind, 0, errs, same) ELSE <<>>
TaskEmitSeq(t, kind, errs) == IF U(t).instr THEN EmitSeq(kind, t, errs, FALSE) ELSE <<>>
PrologueEvs == [k \in 1..p.nargsexpr |-> [Ev("arg") EXCEPT !.k = k, !.g = 1]]

Init ==
  /\ p \in RangeOf(Progs) /\ p.dir = "parallel"
  /\ conc \in Concs
  /\ coe \in (CASE p.coemode = "true" -> {TRUE} [] p.coemode = "expr" -> BOOLEAN [] OTHER -> {FALSE})
  /\ cpc = "pro" /\ ei = 1
  /\ js = [i \in I |-> "none"] /\ jerr = [i \in I |-> <<"nil", 0>>] /\ pend = [i \in I |-> <<>>]
  /\ ran = [id \in PTaskIds |-> FALSE]
  /\ ctx = "live" /\ stopped = FALSE /\ serr = <<>> /\ ret = <<>>
  /\ m = MonInit(p, conc, coe, 1)

\* prologue: every user expression (ctx, Concurrency, ContinueOnError, emitters, names, functions,
\* collections) once, in source order, on the caller
Prologue ==
  /\ cpc = "pro" /\ m' = Feed(m, PrologueEvs) /\ cpc' = "enq"
  /\ UNCHANGED <<p, conc, coe, ei, js, jerr, pend, ran, ctx, stopped, serr, ret>>

\* PA:66-76
Enqueue ==
  /\ cpc = "enq"
  /\ IF ei > Len(EnqOrder) THEN cpc' = "wait" /\ UNCHANGED <<js, ei>>
     ELSE js' = [js EXCEPT ![EnqOrder[ei]] = "queued"] /\ ei' = ei + 1 /\ UNCHANGED cpc
  /\ UNCHANGED <<p, conc, coe, jerr, pend, ran, ctx, stopped, serr, ret, m>>

----------------------------------------------------------------------------
Busy == Cardinality({i \in I : js[i] \in {"disp", "chk", "running", "post"}})
DepsDone(i) == \A d \in JobDeps(i) : js[d] = "ok"
DepFailed(i) == \E d \in JobDeps(i) : js[d] \in {"fail", "inv"}
Finished(i) == js[i] \in {"ok", "fail", "inv"}

Dispatch(i) ==
  /\ js[i] = "queued" /\ ~stopped /\ DepsDone(i) /\ Busy < conc
  /\ js' = [js EXCEPT ![i] = "disp"]
  /\ UNCHANGED <<p, conc, coe, cpc, ei, jerr, pend, ran, ctx, stopped, serr, ret, m>>

\* ContinueOnError: a job whose dependency failed is invalid; the worker drops it (scheduler.go:148)
\* and the sentinel error is filtered out (scheduler.go:469)
SkipInvalid(i) ==
  /\ coe /\ js[i] = "queued" /\ ~stopped /\ DepFailed(i)
  /\ js' = [js EXCEPT ![i] = "inv"]
  /\ UNCHANGED <<p, conc, coe, cpc, ei, jerr, pend, ran, ctx, stopped, serr, ret, m>>

LoopExit ==
  /\ ~stopped
  /\ \/ ~coe /\ serr # <<>>                                                      \* fail fast
     \/ cpc \in {"wait", "defer", "returned", "over"} /\ \A i \in I : Finished(i)  \* nothing pending, queue closed
  /\ stopped' = TRUE
  /\ UNCHANGED <<p, conc, coe, cpc, ei, js, jerr, pend, ran, ctx, serr, ret, m>>

CtxSeenDone == ctx \in {"closed", "done"}

WorkerCheck(i) ==
  /\ js[i] = "disp"
  /\ IF CtxSeenDone
     THEN /\ js' = [js EXCEPT ![i] = "fail"] /\ jerr' = [jerr EXCEPT ![i] = <<"CTX", 0>>]
          /\ serr' = IF ~stopped /\ (coe \/ serr = <<>>) THEN Append(serr, <<"CTX", 0>>) ELSE serr
     ELSE js' = [js EXCEPT ![i] = "chk"] /\ UNCHANGED <<jerr, serr>>
  /\ UNCHANGED <<p, conc, coe, cpc, ei, pend, ran, ctx, stopped, ret, m>>

----------------------------------------------------------------------------
ArgToks(i) ==
  LET u == U(i[1]) IN
  CASE u.kind = "selem" -> IF u.withidx THEN <<i[2], ElemTok(u.coll, i[2])>> ELSE <<ElemTok(u.coll, i[2])>>   \* PS:52-58
    [] u.kind = "melem" -> <<i[2], ElemTok(u.coll, i[2])>>                                                  \* PM:50-52
    [] OTHER -> <<>>

BeginEvs(i) == <<[Ev("ustart") EXCEPT !.u = i[1], !.idx = i[2], !.toks = ArgToks(i)]>>
Begin(i) ==
  /\ js[i] = "chk" /\ js' = [js EXCEPT ![i] = "running"]
  /\ m' = Feed(m, BeginEvs(i))
  /\ UNCHANGED <<p, conc, coe, cpc, ei, jerr, pend, ran, ctx, stopped, serr, ret>>

\* the function returns or panics; every job closure recovers (PT:116-122, PS:18-23, PS:39-44,
\* PM:15-20, PM:37-42) and turns the panic into a PanicError; only Task functions have an emitter
EndEvs(i, o) ==
  LET u == U(i[1])
      etok == <<IF o = "err" THEN "E" ELSE "P", UnitNum(i[1], i[2])>>
  IN <<[Ev("uend") EXCEPT !.u = i[1], !.idx = i[2], !.out = o]>>
     \o (IF u.kind = "ptask"
         THEN TaskEmitSeq(u.id, CASE o = "ok" -> "TaskSuccess" [] o = "err" -> "TaskError" [] OTHER -> "TaskPanic",
                          IF o = "ok" THEN <<>> ELSE <<etok>>) \o TaskEmitSeq(u.id, "TaskDone", <<>>)
         ELSE <<>>)
End(i, o) ==
  /\ js[i] = "running" /\ o \in {"ok", "err", "panic"}
  /\ (o = "err" => U(i[1]).haserr)
  /\ (IsElem(U(i[1])) => o \in OUTS)
  /\ LET u == U(i[1])
         etok == <<IF o = "err" THEN "E" ELSE "P", UnitNum(i[1], i[2])>>
     IN /\ m' = Feed(m, EndEvs(i, o))
        /\ IF u.kind = "ptask" THEN ran' = [ran EXCEPT ![u.id] = TRUE] ELSE UNCHANGED ran
        /\ pend' = [pend EXCEPT ![i] = IF o = "ok" THEN <<"ok">> ELSE <<"fail", etok>>]
  /\ js' = [js EXCEPT ![i] = "post"]
  /\ UNCHANGED <<p, conc, coe, cpc, ei, jerr, ctx, stopped, serr, ret>>

\* the worker reports; the loop records the failure (scheduler.go:462-469)
JobEnd(i) ==
  /\ js[i] = "post"
  /\ IF pend[i][1] = "ok" THEN js' = [js EXCEPT ![i] = "ok"] /\ UNCHANGED <<jerr, serr>>
     ELSE /\ js' = [js EXCEPT ![i] = "fail"] /\ jerr' = [jerr EXCEPT ![i] = pend[i][2]]
          /\ serr' = IF ~stopped /\ (coe \/ serr = <<>>) THEN Append(serr, pend[i][2]) ELSE serr
  /\ UNCHANGED <<p, conc, coe, cpc, ei, pend, ran, ctx, stopped, ret, m>>

----------------------------------------------------------------------------
WaitNilEvs == ParEmitSeq("ParallelSuccess", <<>>, FALSE)
WaitErrEvs == ParEmitSeq("ParallelError", serr, TRUE)
WaitCtxEvs == ParEmitSeq("ParallelError", <<<<"CTX", 0>>>>, TRUE)
\* PA:78-83
WaitNil ==
  /\ cpc = "wait" /\ stopped /\ serr = <<>> /\ ~CtxSeenDone
  /\ m' = Feed(m, WaitNilEvs)
  /\ ret' = <<"nil", <<>>>> /\ cpc' = "defer"
  /\ UNCHANGED <<p, conc, coe, ei, js, jerr, pend, ran, ctx, stopped, serr>>
IsCtxOnly(es) == Len(es) = 1 /\ es[1][1] = "CTX"
WaitErr ==
  /\ cpc = "wait" /\ stopped /\ serr # <<>>
  /\ m' = Feed(m, WaitErrEvs)
  /\ ret' = IF IsCtxOnly(serr) THEN <<"ctx", <<>>>> ELSE <<"errs", serr>>
  /\ cpc' = "defer"
  /\ UNCHANGED <<p, conc, coe, ei, js, jerr, pend, ran, ctx, stopped, serr>>
WaitCtx ==
  /\ cpc = "wait" /\ CtxSeenDone
  /\ m' = Feed(m, WaitCtxEvs)
  /\ ret' = <<"ctx", <<>>>> /\ cpc' = "defer"
  /\ UNCHANGED <<p, conc, coe, ei, js, jerr, pend, ran, ctx, stopped, serr>>

\* deferred: PA:58-64 (TaskSkipped sweep), PA:45 (ParallelDone)
RECURSIVE SweepSeq(_, _)
SweepSeq(us, errs) ==
  IF us = <<>> THEN <<>>
  ELSE LET u == Head(us) IN
       (IF u.kind = "ptask" /\ ~ran[u.id] THEN TaskEmitSeq(u.id, "TaskSkipped", errs) ELSE <<>>) \o SweepSeq(Tail(us), errs)
RetErrs == IF ret[1] = "nil" THEN <<<<"nil", 0>>>> ELSE IF ret[1] = "ctx" THEN <<<<"CTX", 0>>>> ELSE ret[2]
DeferredEvs ==
  SweepSeq(p.units, RetErrs) \o ParEmitSeq("ParallelDone", <<>>, FALSE)
  \o <<[Ev("ret") EXCEPT !.kind = ret[1], !.errs = ret[2], !.toks = <<>>, !.g = 1]>>
Deferred ==
  /\ cpc = "defer"
  /\ m' = Feed(m, DeferredEvs)
  /\ cpc' = "returned"
  /\ UNCHANGED <<p, conc, coe, ei, js, jerr, pend, ran, ctx, stopped, serr, ret>>

Over ==
  /\ cpc = "returned" /\ \A i \in I : js[i] \notin {"disp", "chk", "running", "post"}
  /\ m' = Feed(m, <<Ev("over")>>) /\ cpc' = "over"
  /\ UNCHANGED <<p, conc, coe, ei, js, jerr, pend, ran, ctx, stopped, serr, ret>>

CancelEndEvs == IF cpc = "over" THEN <<>> ELSE <<Ev("cancel")>>
CancelBegin == /\ CANCEL /\ ctx = "live" /\ cpc # "over" /\ ctx' = "cancelling"
               /\ m' = Feed(m, <<Ev("cancel_begin")>>)
               /\ UNCHANGED <<p, conc, coe, cpc, ei, js, jerr, pend, ran, stopped, serr, ret>>
CancelClose == /\ ctx = "cancelling" /\ ctx' = "closed"
               /\ UNCHANGED <<p, conc, coe, cpc, ei, js, jerr, pend, ran, stopped, serr, ret, m>>
CancelEnd ==   /\ ctx = "closed" /\ ctx' = "done"
               /\ m' = Feed(m, CancelEndEvs)
               /\ UNCHANGED <<p, conc, coe, cpc, ei, js, jerr, pend, ran, stopped, serr, ret>>

Done == cpc = "over" /\ ctx \in {"live", "done"} /\ UNCHANGED vars

Next ==
  \/ Prologue \/ Enqueue \/ LoopExit
  \/ \E i \in I : Dispatch(i) \/ SkipInvalid(i) \/ WorkerCheck(i) \/ Begin(i) \/ JobEnd(i)
  \/ \E i \in I : \E o \in {"ok", "err", "panic"} : End(i, o)
  \/ WaitNil \/ WaitErr \/ WaitCtx \/ Deferred \/ Over
  \/ CancelBegin \/ CancelClose \/ CancelEnd \/ Done

Spec == Init /\ [][Next]_vars
NoViolation == m.viol = {}
=============================================================================
