------------------------------- MODULE DirSys -------------------------------
(***************************************************************************)
(* What a user of cff.Flow / cff.Parallel may rely on, as a monitor: a     *)
(* deterministic state machine that consumes the API-level events of ONE   *)
(* execution of a directive (argument evaluations, starts and ends of user *)
(* functions with their argument tokens, emitter callbacks, cancellation,  *)
(* the returned error and the contents of the Results targets) and records *)
(* every event the properties C01-C11, C15, C18 do not allow.              *)
(*                                                                         *)
(* The same monitor is driven from two sides:                              *)
(*   - Flow.tla / Parallel.tla (the templates transcribed step by step):   *)
(*     TLC checks that no behaviour of the transcription makes the monitor *)
(*     record anything, for every small program, outcome and schedule;     *)
(*   - DirTrace.tla: the events recorded from freshly generated code.      *)
(*                                                                         *)
(* Values are provenance tokens (see harness/pkg/h): ParamTok(ty),         *)
(* OutTok(u,i), FBTok(u,i), ElemTok(c,i), 0 = zero value, -7 = sentinel    *)
(* preloaded into Results targets.                                         *)
(***************************************************************************)
EXTENDS Integers, Sequences, FiniteSets, TLC

ParamTok(ty) == 100 + ty
OutTok(u, i) == 1000 * u + i          \* i is 1-based here
FBTok(u, i)  == 500000 + 1000 * u + i
\* the token of the i-th FallbackWith value of unit record u: a fallback spelled as the literal nil (u.fbnil[i] = 1;
\* pointer, slice, map, interface values) is the zero value
FBTokOf(u, i) == IF "fbnil" \in DOMAIN u /\ i <= Len(u.fbnil) /\ u.fbnil[i] = 1 THEN 0 ELSE FBTok(u.id, i)
ElemTok(c, i) == 20000 + 100 * c + i
SENTINEL == -7
UnitNum(u, idx) == IF idx < 0 THEN u * 1000 ELSE u * 1000 + idx + 1   \* as in error tokens

RangeOf(s) == {s[i] : i \in DOMAIN s}
IndexOf(s, x) == CHOOSE i \in DOMAIN s : s[i] = x
Count(s, P(_)) == Cardinality({i \in DOMAIN s : P(s[i])})

----------------------------------------------------------------------------
(* The abstract program (field names as in harness/pkg/h.Prog).            *)

Units(p) == RangeOf(p.units)
UnitOf(p, id) == CHOOSE u \in Units(p) : u.id = id
HasUnit(p, id) == \E u \in Units(p) : u.id = id
IsElem(u) == u.kind \in {"selem", "melem"}
\* instances of user functions: <<unit id, index>>; index -1 for everything but elements
Insts(p) == {<<u.id, -1>> : u \in {v \in Units(p) : ~IsElem(v)}}
            \cup UNION {{<<u.id, i>> : i \in 0..(u.len - 1)} : u \in {v \in Units(p) : IsElem(v)}}
Tasks(p) == {u \in Units(p) : u.kind = "task"}
\* the task that produces type ty in a flow (0 if it is a parameter)
Provider(p, ty) == IF ty \in RangeOf(p.params) THEN 0
                   ELSE (CHOOSE u \in Tasks(p) : ty \in RangeOf(u.outs)).id

----------------------------------------------------------------------------
(* Monitor state: one record.                                              *)

MonInit(p, effconc, effcoe, caller) ==
  [prog |-> p, conc |-> effconc, coe |-> effcoe, caller |-> caller,
   nargs |-> 0,                      \* argument expressions evaluated so far
   anyStart |-> FALSE,               \* some user function has started
   st |-> [i \in Insts(p) |-> "idle"],   \* idle running ok err panic true false
   cnt |-> [i \in Insts(p) |-> 0],       \* how many times it was started
   ctxMay |-> FALSE, ctxDone |-> FALSE, ctxAtRet |-> FALSE,
   doomed |-> {},
   gs |-> {},                        \* goroutines on which user functions have started
   ret |-> <<>>,                     \* <<kind, errs, results>> once returned
   emits |-> <<>>,                   \* emitter callbacks so far
   viol |-> {}]

V(m, e, prop, what) == <<e.exec, e.stamp, prop, what>>
Add(m, S) == [m EXCEPT !.viol = IF Cardinality(@) > 30 THEN @ ELSE @ \cup S]

St(m, id) == m.st[<<id, -1>>]
\* has task t made its outputs available (C11: a false predicate yields zero values,
\* FallbackWith yields the fallback values)?
PredOf(m, t) == UnitOf(m.prog, t).pred
Produced(m, t) ==
  LET u == UnitOf(m.prog, t) IN
  \/ St(m, t) = "ok"
  \/ St(m, t) \in {"err", "panic"} /\ u.fb
  \/ u.pred # 0 /\ St(m, u.pred) = "false"
  \/ u.pred # 0 /\ St(m, u.pred) = "panic" /\ u.fb
Provided(m, ty) == LET t == Provider(m.prog, ty) IN t = 0 \/ Produced(m, t)
\* the token a consumer of type ty must be handed
TokFor(m, ty) ==
  LET t == Provider(m.prog, ty) IN
  IF t = 0 THEN ParamTok(ty)
  ELSE LET u == UnitOf(m.prog, t) IN
       IF St(m, t) = "ok" THEN OutTok(t, IndexOf(u.outs, ty))
       ELSE IF u.pred # 0 /\ St(m, u.pred) = "false" THEN 0
       ELSE FBTokOf(u, IndexOf(u.outs, ty))
\* a unit whose failure fails the directive (an error or panic not absorbed by FallbackWith)
FailedInst(m, i) ==
  LET u == UnitOf(m.prog, i[1]) IN
  \/ u.kind # "pred" /\ m.st[i] \in {"err", "panic"} /\ ~(u.kind = "task" /\ u.fb)
  \/ u.kind = "pred" /\ m.st[i] = "panic" /\ ~UnitOf(m.prog, u.task).fb
FailTok(m, i) == <<IF m.st[i] = "err" THEN "E" ELSE "P", UnitNum(i[1], i[2])>>
NRun(m) == Cardinality({i \in Insts(m.prog) : m.st[i] = "running"})
Ended(m, i) == m.st[i] \notin {"idle", "running"}

\* the instances that must have ended successfully before instance i may start (C01 / C10 / C11)
DepsOK(m, i) ==
  LET u == UnitOf(m.prog, i[1]) IN
  CASE u.kind = "task" -> /\ \A k \in DOMAIN u.ins : Provided(m, u.ins[k])
                          /\ (u.pred # 0 => St(m, u.pred) = "true")
    [] u.kind = "pred" -> \A k \in DOMAIN u.ins : Provided(m, u.ins[k])
    [] u.kind \in {"send", "mend"} ->
          \A v \in Units(m.prog) : (IsElem(v) /\ v.end = u.id) =>
              \A k \in 0..(v.len - 1) : m.st[<<v.id, k>>] = "ok"
    [] OTHER -> TRUE
\* something upstream failed (C07 / C08: nothing downstream of a failure is invoked)
UpstreamFailed(m, i) ==
  LET u == UnitOf(m.prog, i[1]) IN
  CASE u.kind \in {"task", "pred"} ->
          \E k \in DOMAIN u.ins : LET t == Provider(m.prog, u.ins[k]) IN
                                  t # 0 /\ (FailedInst(m, <<t, -1>>) \/
                                            (PredOf(m, t) # 0 /\ FailedInst(m, <<PredOf(m, t), -1>>)))
    [] u.kind \in {"send", "mend"} ->
          \E v \in Units(m.prog) : IsElem(v) /\ v.end = u.id /\
              \E k \in 0..(v.len - 1) : m.st[<<v.id, k>>] \in {"err", "panic"}
    [] OTHER -> FALSE
ExpectedToks(m, i) ==
  LET u == UnitOf(m.prog, i[1]) IN
  CASE u.kind \in {"task", "pred"} -> [k \in DOMAIN u.ins |-> TokFor(m, u.ins[k])]
    [] u.kind = "selem" -> IF u.withidx THEN <<i[2], ElemTok(u.coll, i[2])>> ELSE <<ElemTok(u.coll, i[2])>>
    [] u.kind = "melem" -> <<i[2], ElemTok(u.coll, i[2])>>
    [] OTHER -> <<>>

\* C09: at the instant the cancellation completes, these can never start any more
DoomedSet(m) == {i \in Insts(m.prog) : m.st[i] = "idle" /\ m.cnt[i] = 0 /\
                    (~DepsOK(m, i) \/ NRun(m) >= m.conc)}

----------------------------------------------------------------------------
(* Events.  e is a record with the fields of harness/pkg/h.Ev.             *)

OnArg(m, e) ==
  Add([m EXCEPT !.nargs = e.k],
      (IF e.k = m.nargs + 1 THEN {} ELSE {V(m, e, "C15", "argument expressions not evaluated once each in source order")})
      \cup (IF ~m.anyStart THEN {} ELSE {V(m, e, "C15", "argument expression evaluated after a task had started")})
      \cup (IF e.g = m.caller THEN {} ELSE {V(m, e, "C15", "argument expression evaluated on another goroutine")}))

OnStart(m, e) ==
  LET i == <<e.u, e.idx>> IN
  IF i \notin Insts(m.prog)
  THEN Add(m, {V(m, e, IF e.idx >= 0 THEN "C10" ELSE "HARNESS", "user function invoked for an element that is not in the collection")})
  ELSE
  LET u == UnitOf(m.prog, e.u)
      dataprop == CASE u.kind = "task" -> "C02" [] u.kind = "pred" -> "C11" [] OTHER -> "C10"
  IN Add([m EXCEPT !.st[i] = "running", !.cnt[i] = @ + 1, !.anyStart = TRUE, !.gs = @ \cup {e.g}],
      (IF m.cnt[i] = 0 THEN {} ELSE {V(m, e, IF u.kind = "pred" THEN "C11" ELSE "C01", "user function invoked more than once")})
      \cup (IF m.cnt[i] = 0 \/ u.kind = "pred" THEN {}
            ELSE {V(m, e, dataprop, "task / element function invoked more than once")})
      \cup (IF DepsOK(m, i) THEN {}
            ELSE {V(m, e, "C01", "started before the functions it depends on finished successfully")}
                 \cup (IF u.kind = "task" /\ u.pred # 0 /\ St(m, u.pred) # "true"
                       THEN {V(m, e, "C11", "task invoked although its predicate did not return true")} ELSE {})
                 \cup (IF u.kind \in {"send", "mend"} THEN {V(m, e, "C10", "End hook ran before every element call returned ok")} ELSE {})
                 \* a flow function invoked before the provider of one of its parameters has returned cannot have been
                 \* passed the value that provider returned
                 \cup (IF u.kind \in {"task", "pred"} /\ \E k \in DOMAIN u.ins : ~Provided(m, u.ins[k])
                       THEN {V(m, e, dataprop, "invoked before the provider of one of its parameters had returned a value")} ELSE {}))
      \cup (IF ~UpstreamFailed(m, i) THEN {}
            ELSE {V(m, e, IF m.coe THEN "C08" ELSE "C07", "function downstream of a failure was invoked")})
      \cup (IF ~DepsOK(m, i) \/ e.toks = ExpectedToks(m, i) THEN {}
            ELSE {V(m, e, dataprop, "invoked with other values than its providers returned")})
      \cup (IF \A k \in DOMAIN e.toks : e.toks[k] # -15 THEN {}
            ELSE {V(m, e, "C15", "an argument read a variable after a later argument's side effect: evaluated out of source order")})
      \cup (IF NRun(m) < m.conc THEN {} ELSE {V(m, e, "C03", "more user functions running than the concurrency limit")})
      \* the goroutines of a directive are its workers: a function of the limit only, whatever the number of
      \* tasks / elements (no user function of the rendered programs kills its goroutine)
      \cup (IF Cardinality(m.gs \cup {e.g}) <= m.conc THEN {}
            ELSE {V(m, e, "C03", "user functions ran on more goroutines than the concurrency limit")})
      \cup (IF i \notin m.doomed THEN {} ELSE {V(m, e, "C09", "started although it could only start after the cancellation")})
      \cup (IF e.ctxok THEN {} ELSE {V(m, e, "C09", "user function did not receive the directive's context")})
      \cup (IF m.nargs = m.prog.nargsexpr THEN {} ELSE {V(m, e, "C15", "a task started before every argument was evaluated")}))

OnEnd(m, e) ==
  LET i == <<e.u, e.idx>> IN
  IF i \notin Insts(m.prog) THEN m
  ELSE Add([m EXCEPT !.st[i] = e.out],
           IF m.st[i] = "running" THEN {} ELSE {V(m, e, "HARNESS", "end of a function that is not running")})

OnCancelBegin(m, e) == [m EXCEPT !.ctxMay = TRUE]
OnCancel(m, e) == IF m.ctxDone THEN m
                  ELSE [m EXCEPT !.ctxMay = TRUE, !.ctxDone = TRUE, !.doomed = DoomedSet(m)]

OnEmit(m, e) == [m EXCEPT !.emits = Append(@, e)]

----------------------------------------------------------------------------
(* The return of the directive.                                            *)

FailedSet(m) == {i \in Insts(m.prog) : FailedInst(m, i)}
\* a false predicate disables its task
Disabled(m, i) == LET u == UnitOf(m.prog, i[1]) IN
                  u.kind = "task" /\ u.pred # 0 /\ St(m, u.pred) \in {"false", "panic"}
JobDone(m, i) == LET u == UnitOf(m.prog, i[1]) IN
                 \/ m.st[i] \in {"ok", "true", "false"} /\ m.cnt[i] = 1
                 \/ u.kind = "task" /\ u.fb /\ m.st[i] \in {"err", "panic"} /\ m.cnt[i] = 1
                 \/ u.kind = "pred" /\ m.st[i] = "panic" /\ UnitOf(m.prog, u.task).fb /\ m.cnt[i] = 1
                 \/ Disabled(m, i) /\ m.cnt[i] = 0
ExpectedResults(m) == [k \in DOMAIN m.prog.results |-> TokFor(m, m.prog.results[k])]
TokensOf(errs) == [k \in DOMAIN errs |-> <<errs[k][1], errs[k][2]>>]

OnRet(m, e) ==
  LET errs == TokensOf(e.errs)
      nonctx == SelectSeq(errs, LAMBDA t : t[1] # "CTX")
      F == FailedSet(m)
      okAll == \A i \in Insts(m.prog) : JobDone(m, i)
      sentinel == \A k \in DOMAIN e.toks : e.toks[k] = SENTINEL
      failprop == IF m.coe THEN "C08" ELSE "C07"
      panicLost == \E i \in F : m.st[i] = "panic" /\ e.kind # "ctx" /\
                      ~(\E k \in DOMAIN errs : errs[k] = FailTok(m, i)) /\ (m.coe \/ e.kind = "nil")
  IN Add([m EXCEPT !.ret = <<e.kind, errs, e.toks>>],
     (IF e.g = m.caller THEN {} ELSE {V(m, e, "HARNESS", "return logged on another goroutine")})
     \cup (IF m.nargs = m.prog.nargsexpr THEN {} ELSE {V(m, e, "C15", "not every argument expression was evaluated exactly once")})
     \cup (CASE e.kind = "nil" ->
                 (IF okAll THEN {} ELSE {V(m, e, failprop, "nil returned although not every task ran successfully exactly once"),
                                         V(m, e, IF m.prog.dir = "flow" THEN "C02" ELSE "C10",
                                           "nil returned although not every function was invoked exactly once")})
                 \cup (IF \E t \in Tasks(m.prog) : t.pred # 0 /\ St(m, t.pred) = "true" /\ m.cnt[<<t.id, -1>>] = 0
                       THEN {V(m, e, "C11", "the predicate returned true but its task was never invoked"),
                             \* the only way the generated code can get there: the task's job read the predicate's
                             \* result before the predicate's job had finished
                             V(m, e, "C01", "a task's job ran before the predicate job it depends on had finished (predicate true, flow returned nil, task never invoked)")}
                       ELSE {})
                 \cup (IF m.prog.dir = "flow" /\ okAll /\ e.toks # ExpectedResults(m)
                       THEN {V(m, e, IF \E t \in Tasks(m.prog) : t.pred # 0 \/ t.fb THEN "C11" ELSE "C02",
                               "Results do not hold the values their providers returned")} ELSE {})
                 \cup (IF ~m.ctxDone THEN {} ELSE
                         IF \E i \in Insts(m.prog) : m.st[i] = "idle" /\ ~Disabled(m, i)
                         THEN {V(m, e, "C09", "nil returned after the context was cancelled with tasks not run")} ELSE {})
            [] e.kind = "ctx" ->
                 (IF m.ctxMay THEN {} ELSE {V(m, e, failprop, "context error returned but the context was never cancelled")})
                 \cup (IF sentinel THEN {} ELSE {V(m, e, "C07", "Results targets modified although an error is returned")})
            [] OTHER ->
                 (IF m.coe THEN
                    (IF \A k \in DOMAIN nonctx : \E i \in F : nonctx[k] = FailTok(m, i) THEN {}
                     ELSE {V(m, e, "C08", "returned error has an entry that is no failed task's error")})
                    \cup (IF \A i \in F : Cardinality({k \in DOMAIN nonctx : nonctx[k] = FailTok(m, i)}) = 1 THEN {}
                          ELSE {V(m, e, "C08", "a failed task is not reported exactly once")})
                    \cup (IF Len(nonctx) < Len(errs) => m.ctxMay THEN {} ELSE {V(m, e, "C08", "context error without cancellation")})
                    \cup (IF \A i \in Insts(m.prog) : m.st[i] # "running" THEN {} ELSE {V(m, e, "C08", "returned while tasks were still running")})
                    \cup (IF m.ctxMay \/ \A i \in Insts(m.prog) : (DepsOK(m, i) => Ended(m, i)) THEN {}
                          ELSE {V(m, e, "C08", "a task whose dependencies all succeeded was not run")})
                  ELSE
                    (IF Len(errs) = 1 /\ (\/ \E i \in F : errs[1] = FailTok(m, i)
                                          \/ errs[1][1] = "CTX" /\ m.ctxMay) THEN {}
                     ELSE {V(m, e, "C07", "returned error is not the error of a task that failed, nor the context's")}))
                 \cup (IF sentinel THEN {} ELSE {V(m, e, "C07", "Results targets modified although an error is returned")}))
     \* C11: a failure FallbackWith absorbs is not reported
     \cup (IF \E k \in DOMAIN errs : \E i \in Insts(m.prog) :
               LET u == UnitOf(m.prog, i[1]) IN
               /\ \/ u.kind = "task" /\ u.fb /\ m.st[i] \in {"err", "panic"}
                  \/ u.kind = "pred" /\ m.st[i] = "panic" /\ UnitOf(m.prog, u.task).fb
               /\ errs[k] = FailTok(m, i)
           THEN {V(m, e, "C11", "the directive returns a failure that FallbackWith on that task should have absorbed")} ELSE {})
     \cup (IF panicLost THEN {V(m, e, "C04", "a panic is not reported as a PanicError carrying the panic value")} ELSE {})
     \cup (IF \E k \in DOMAIN errs : errs[k][1] = "P" /\ errs[k][2] = 0
           THEN {V(m, e, "C04", "PanicError carries a value that no user function panicked with")} ELSE {})
     \cup (IF \E k \in DOMAIN errs : errs[k][1] \in {"INV", "?", "X"}
           THEN {V(m, e, failprop, "returned error contains an internal or unknown error")} ELSE {}))

----------------------------------------------------------------------------
(* C18: evaluated when the execution is over (every started function has   *)
(* ended, the deferred emitter calls have run).                            *)

EmitCount(m, leaf, kind, u) ==
  Cardinality({k \in DOMAIN m.emits : m.emits[k].leaf = leaf /\ m.emits[k].kind = kind /\ m.emits[k].u = u})
EmitTok(m, leaf, kind, u) ==
  LET k == CHOOSE k \in DOMAIN m.emits : m.emits[k].leaf = leaf /\ m.emits[k].kind = kind /\ m.emits[k].u = u
  IN <<m.emits[k].errs[1][1], m.emits[k].errs[1][2]>>
LastOfLeaf(m, leaf) ==
  LET S == {k \in DOMAIN m.emits : m.emits[k].leaf = leaf /\ m.emits[k].u = 0 /\
                                    SubSeq(m.emits[k].kind, 1, 4) # "Task"} IN   \* directive-level events (with
                                    \* -auto-instrument task events of implied names have u = 0 too)
  IF S = {} THEN "" ELSE m.emits[CHOOSE k \in S : \A j \in S : j <= k].kind

OutcomeKinds == {"TaskSuccess", "TaskError", "TaskErrorRecovered", "TaskPanic", "TaskPanicRecovered"}

OnOver(m, e) ==
  LET p == m.prog
      D == IF p.dir = "flow" THEN "Flow" ELSE "Parallel"
      nilret == m.ret # <<>> /\ m.ret[1] = "nil"
      LeafBad(l) ==
        (IF ~p.instr THEN {}
         ELSE (IF EmitCount(m, l, D \o "Success", 0) + EmitCount(m, l, D \o "Error", 0) = 1 THEN {}
               ELSE {V(m, e, "C18", "not exactly one of Success/Error")})
              \cup (IF EmitCount(m, l, D \o "Success", 0) = (IF nilret THEN 1 ELSE 0) THEN {}
                    ELSE {V(m, e, "C18", "Success/Error does not match what the directive returned")})
              \cup (IF \A k \in DOMAIN m.emits :
                        (m.emits[k].leaf = l /\ m.emits[k].kind = D \o "Error") => m.emits[k].same THEN {}
                    ELSE {V(m, e, "C18", "Error event does not carry the error the directive returned")})
              \cup (IF EmitCount(m, l, D \o "Done", 0) = 1 /\ LastOfLeaf(m, l) = D \o "Done" THEN {}
                    ELSE {V(m, e, "C18", "not exactly one Done event, last")}))
        \cup UNION {
          LET i == <<u.id, -1>>
              c == m.cnt[i]
              s == m.st[i]
              expkind == CASE s = "ok" -> "TaskSuccess"
                           [] s = "err" -> IF u.kind = "task" /\ u.fb THEN "TaskErrorRecovered" ELSE "TaskError"
                           [] s = "panic" -> IF u.kind = "task" /\ u.fb THEN "TaskPanicRecovered" ELSE "TaskPanic"
                           [] OTHER -> "?"
              nout == Cardinality({k \in DOMAIN m.emits : m.emits[k].leaf = l /\ m.emits[k].u = u.id /\
                                                        m.emits[k].kind \in OutcomeKinds})
          IN IF ~u.instr \/ s = "running" THEN {}
             ELSE IF c = 1 THEN
                    (IF nout = 1 /\ EmitCount(m, l, expkind, u.id) = 1 THEN {}
                     ELSE {V(m, e, "C18", "task invocation without exactly one matching outcome event")})
                    \cup (IF s = "ok" \/ EmitCount(m, l, expkind, u.id) # 1 \/ EmitTok(m, l, expkind, u.id) = FailTok(m, i) THEN {}
                          ELSE {V(m, e, "C18", "outcome event carries the wrong error / panic value")})
                    \cup (IF EmitCount(m, l, "TaskDone", u.id) = 1 THEN {}
                          ELSE {V(m, e, "C18", "task invocation without exactly one TaskDone")})
                    \cup (IF ~nilret \/ EmitCount(m, l, "TaskSkipped", u.id) = 0 THEN {}
                          ELSE {V(m, e, "C18", "TaskSkipped for a task that was invoked")})
                  ELSE IF c = 0 /\ nilret THEN
                    (IF EmitCount(m, l, "TaskSkipped", u.id) = 1 THEN {}
                     ELSE {V(m, e, "C18", "task not invoked in a nil-returning directive without exactly one TaskSkipped")})
                  ELSE {}
          : u \in {v \in Units(p) : v.kind \in {"task", "ptask"}}}
      \* -auto-instrument: tasks without an explicit cff.Instrument get an implied name (file.line), which
      \* identifies the task but is not ours to predict; whichever of them are instrumented (cff instruments
      \* those that are listed after cff.InstrumentFlow - an order dependence no listed property rules out),
      \* each implied name stands for one task: per name exactly one outcome event and one TaskDone, or one
      \* TaskSkipped, never more tasks than were invoked / not invoked
      Implied == {u \in Units(p) : u.kind \in {"task", "ptask"} /\ ~u.instr}
      AutoBad(l) ==
        IF ~p.autoins \/ \E u \in Implied : m.st[<<u.id, -1>>] = "running" THEN {}
        ELSE LET Idx == {k \in DOMAIN m.emits : m.emits[k].leaf = l /\ m.emits[k].u = 0 /\ SubSeq(m.emits[k].kind, 1, 4) = "Task"}
                 Names == {m.emits[k].name : k \in Idx}
                 N(nm, K) == Cardinality({k \in Idx : m.emits[k].name = nm /\ m.emits[k].kind \in K})
                 doneNames == {nm \in Names : N(nm, {"TaskDone"}) > 0}       \* the task function was called and returned
                 skipNames == {nm \in Names : N(nm, {"TaskSkipped"}) > 0}
             IN (IF \A nm \in doneNames : N(nm, OutcomeKinds) = 1 /\ N(nm, {"TaskDone"}) = 1 /\ (nilret => N(nm, {"TaskSkipped"}) = 0) THEN {}
                 ELSE {V(m, e, "C18", "with -auto-instrument: an invoked task (implied name) without exactly one outcome event and one TaskDone")})
                \* without TaskDone the function was not called: the only outcome event possible is the predicate's panic
                \cup (IF \A nm \in Names \ doneNames : N(nm, OutcomeKinds \ {"TaskPanic", "TaskPanicRecovered"}) = 0 /\ N(nm, OutcomeKinds) <= 1 THEN {}
                      ELSE {V(m, e, "C18", "with -auto-instrument: outcome events for a task (implied name) that was not invoked")})
                \cup (IF \A nm \in skipNames : N(nm, {"TaskSkipped"}) = 1 THEN {}
                      ELSE {V(m, e, "C18", "with -auto-instrument: more than one TaskSkipped for an implied task name")})
                \cup (IF Cardinality(doneNames) <= Cardinality({u \in Implied : m.cnt[<<u.id, -1>>] = 1}) THEN {}
                      ELSE {V(m, e, "C18", "with -auto-instrument: TaskDone for more implied tasks than were invoked")})
  IN Add(m, UNION {LeafBad(l) \cup AutoBad(l) : l \in 1..p.leaves})

----------------------------------------------------------------------------
MonStep(m, e) ==
  CASE e.ev = "arg" -> OnArg(m, e)
    [] e.ev = "ustart" -> OnStart(m, e)
    [] e.ev = "uend" -> OnEnd(m, e)
    [] e.ev = "cancel_begin" -> OnCancelBegin(m, e)
    [] e.ev = "cancel" -> OnCancel(m, e)
    [] e.ev = "emit" -> OnEmit(m, e)
    [] e.ev = "ret" -> OnRet(m, e)
    [] e.ev = "over" -> OnOver(m, e)
    [] e.ev = "propagated" -> Add(m, {V(m, e, "C04", "a panic propagated to the caller of the directive")})
    [] e.ev = "hang" -> Add(m, {V(m, e, "C05", "the directive did not return: " \o e.note)})
    [] e.ev = "leak" -> Add(m, {V(m, e, IF SubSeq(e.note, 1, 3) = "not" THEN "INCONCLUSIVE" ELSE "C06",
                                    "scheduler goroutines survive the directive: " \o e.note)})
    [] e.ev = "capacity" -> Add(m, IF e.k >= e.idx THEN {}
                                   ELSE {V(m, e, "C03", "independent user functions did not run concurrently up to the limit although nothing else was running")})
    [] e.ev = "capture" -> Add(m, {V(m, e, "C15", "an identifier introduced by generated code captured a name used in an argument expression")})
    [] e.ev = "notprompt" -> Add(m, {V(m, e, "C09", "the directive did not return after its context was done while a user function was still running")})
    [] e.ev = "slow" -> Add(m, {V(m, e, "INCONCLUSIVE", e.note)})
    [] OTHER -> m
=============================================================================
