----------------------------- MODULE JobSysTrace -----------------------------
(***************************************************************************)
(* Validation of stamped API-level traces of the real scheduler (and of    *)
(* freshly generated Flow/Parallel code, whose tasks are the jobs) against *)
(* the contract JobSys.                                                    *)
(*                                                                         *)
(* The trace file holds many runs one after the other; a "reset" line      *)
(* starts a run and carries its input.  Every line is one event, in stamp  *)
(* order (the stamps are positions in a mutex-protected log, so they are a *)
(* linearization of the events).  Each line determines its action fully,   *)
(* so validation is linear in the length of the file.                      *)
(*                                                                         *)
(* A contract action whose guard is false is not refused: the failed guard *)
(* is recorded in `viol` under the property it states (JobSys keeps one    *)
(* guard per property for this purpose), the effect is applied, and the    *)
(* rest of the file is still checked.                                      *)
(***************************************************************************)
EXTENDS JobSys, Json

CONSTANT TraceFile, MaxViol

Trace == ndJsonDeserialize(TraceFile)

VARIABLES l,        \* position in Trace
          run,      \* number of the current run
          viol,     \* set of <<run, line, property, what>>
          gs,       \* goroutines that have executed a job body in this run
          nexit,    \* jobs that ended with Goexit so far
          nruns     \* runs seen
tvars == <<jvars, l, run, viol, gs, nexit, nruns>>

TInit == /\ JInit /\ nJ = 0 /\ N = 1 /\ coe = FALSE
         /\ deps = [j \in Jobs |-> <<>>] /\ cls = [j \in Jobs |-> j] /\ jc = [j \in Jobs |-> 1]
         /\ l = 1 /\ run = 0 /\ viol = {} /\ gs = {} /\ nexit = 0 /\ nruns = 0

E == Trace[l]
Is(ev) == l <= Len(Trace) /\ E.ev = ev /\ (ev = "reset" \/ E.run = run) /\ l' = l + 1
V(prop, what) == <<run, l, prop, what>>
\* Record(S): add the violations in S (at most MaxViol are kept)
Record(S) == viol' = IF Cardinality(viol) >= MaxViol THEN viol ELSE viol \cup S

TReset ==
  /\ Is("reset")
  /\ nJ' = E.nj /\ N' = E.n /\ coe' = E.coe
  /\ deps' = [j \in Jobs |-> IF j <= E.nj THEN E.deps[j] ELSE <<>>]
  /\ cls' = [j \in Jobs |-> IF j <= E.nj THEN E.cls[j] ELSE j]
  /\ jc' = [j \in Jobs |-> IF j <= E.nj /\ j <= Len(E.jc) THEN E.jc[j] ELSE 1]
  /\ c2May' = FALSE /\ c2Done' = FALSE
  /\ sub' = {} /\ st' = [j \in Jobs |-> "pending"] /\ ctxMay' = FALSE /\ ctxDone' = FALSE /\ doomed' = {}
  /\ wait' = "open" /\ ctxAtCall' = FALSE /\ res' = <<"none">>
  /\ run' = E.run /\ gs' = {} /\ nexit' = 0 /\ nruns' = nruns + 1
  /\ UNCHANGED viol

TSubmit ==
  /\ Is("submit")
  /\ LET j == E.job IN
     /\ sub' = sub \cup {j}
     /\ Record(IF j \in 1..nJ /\ j \notin sub /\ DepSet(j) \subseteq sub /\ wait = "open"
               THEN {} ELSE {V("HARNESS", "bad submit")})
  /\ UNCHANGED <<nJ, jc, N, coe, deps, cls, st, ctxMay, ctxDone, doomed, wait, ctxAtCall, res, run, gs, nexit, nruns, c2May, c2Done>>

\* some job j transitively depends on has failed
RECURSIVE DepFailed(_)
DepFailed(j) == \E d \in DepSet(j) : Failed(d) \/ DepFailed(d)

TStart ==
  /\ Is("start")
  /\ LET j == E.job IN
     /\ Record(
          (IF StartG_Once(j) THEN {} ELSE {V("C01", "job started although it is not pending (ran twice?)")})
          \cup (IF StartG_Deps(j) THEN {} ELSE {V("C01", "job started before every dependency finished ok")})
          \cup (IF ~DepFailed(j) THEN {}
                ELSE {V(IF coe THEN "C08" ELSE "C07", "job downstream of a failed job was invoked")})
          \cup (IF StartG_Conc(j) THEN {} ELSE {V("C03", "more than N job bodies running")})
          \cup (IF StartG_Ctx(j) THEN {} ELSE {V("C09", "job that could only start after the cancellation was started")})
          \cup (IF E.note # "wrongctx" THEN {} ELSE {V("C09", "job body did not receive the caller's context")}))
     /\ st' = [st EXCEPT ![j] = "running"]
     /\ gs' = gs \cup {E.g}
     \* C03: bodies run on the N workers only; a worker goroutine is replaced only after Goexit
     /\ TRUE
  /\ UNCHANGED <<nJ, jc, N, coe, deps, cls, sub, ctxMay, ctxDone, doomed, wait, ctxAtCall, res, run, nexit, nruns, c2May, c2Done>>

TEnd ==
  /\ Is("end")
  /\ LET j == E.job IN
     /\ st' = [st EXCEPT ![j] = E.out]
     /\ nexit' = IF E.out = "exit" THEN nexit + 1 ELSE nexit
     /\ Record((IF st[j] = "running" THEN {} ELSE {V("HARNESS", "end of a job that is not running")})
               \cup (IF Cardinality(gs) <= N + nexit THEN {}
                     ELSE {V("C03", "job bodies ran on more goroutines than N workers plus replacements")}))
  /\ UNCHANGED <<nJ, jc, N, coe, deps, cls, sub, ctxMay, ctxDone, doomed, wait, ctxAtCall, res, run, gs, nruns, c2May, c2Done>>

TCancelBegin ==
  /\ Is("cancel_begin")
  /\ ctxMay' = TRUE
  /\ UNCHANGED <<nJ, jc, N, coe, deps, cls, sub, st, ctxDone, doomed, wait, ctxAtCall, res, run, viol, gs, nexit, nruns, c2May, c2Done>>

TCancel ==
  /\ Is("cancel")
  /\ ctxDone' = TRUE /\ ctxMay' = TRUE
  /\ doomed' = IF ctxDone THEN doomed ELSE DoomedSet
  /\ Record(IF ctxMay THEN {} ELSE {V("HARNESS", "cancel without cancel_begin")})
  /\ UNCHANGED <<nJ, jc, N, coe, deps, cls, sub, st, wait, ctxAtCall, res, run, gs, nexit, nruns, c2May, c2Done>>

\* the second context (jobs enqueued with it; Wait does not watch it)
TCancel2Begin ==
  /\ Is("cancel2_begin")
  /\ c2May' = TRUE
  /\ UNCHANGED <<nJ, jc, N, coe, deps, cls, sub, st, ctxMay, ctxDone, doomed, c2Done, wait, ctxAtCall, res, run, viol, gs, nexit, nruns>>

TCancel2 ==
  /\ Is("cancel2")
  /\ c2Done' = TRUE /\ c2May' = TRUE
  /\ doomed' = IF c2Done THEN doomed ELSE doomed \cup DoomedFor(2)
  /\ Record(IF c2May THEN {} ELSE {V("HARNESS", "cancel2 without cancel2_begin")})
  /\ UNCHANGED <<nJ, jc, N, coe, deps, cls, sub, st, ctxMay, ctxDone, wait, ctxAtCall, res, run, gs, nexit, nruns>>

TWaitCall ==
  /\ Is("waitcall")
  /\ wait' = "called" /\ ctxAtCall' = ctxDone
  /\ UNCHANGED <<nJ, jc, N, coe, deps, cls, sub, st, ctxMay, ctxDone, doomed, res, run, viol, gs, nexit, nruns, c2May, c2Done>>

ResOf(e) == IF e.kind = "errs" THEN <<"errs", e.toks>> ELSE <<e.kind>>

TWaitRet ==
  /\ Is("waitret")
  /\ LET r == ResOf(E) IN
     /\ wait' = "returned" /\ res' = r
     /\ Record(
          (IF WaitOK(r) THEN {}
           ELSE {V(IF coe THEN "C08" ELSE "C07", "Wait result not allowed by the contract")})
          \cup (IF r = <<"nil">> /\ ctxAtCall
                THEN {V("C09", "nil returned although the context was done before the call")} ELSE {}))
  /\ UNCHANGED <<nJ, jc, N, coe, deps, cls, sub, st, ctxMay, ctxDone, doomed, ctxAtCall, run, gs, nexit, nruns, c2May, c2Done>>

\* C19: a State record emitted by the real scheduler (stamped inside Emitter.Emit)
TState ==
  /\ Is("state")
  /\ LET ex == E.p - E.r - E.w IN
     Record(
       (IF E.p >= 0 /\ E.r >= 0 /\ E.w >= 0 /\ E.idle >= 0 /\ E.c >= 0 THEN {} ELSE {V("C19", "negative count")})
       \cup (IF ex >= 0 /\ ex <= E.c THEN {} ELSE {V("C19", "executing = Pending-Ready-Waiting outside 0..Concurrency")})
       \cup (IF E.idle = E.c - ex THEN {} ELSE {V("C19", "IdleWorkers # Concurrency - executing")})
       \cup (IF E.c = N THEN {} ELSE {V("C19", "Concurrency is not the configured limit")})
       \cup (IF E.p <= Cardinality(sub) THEN {} ELSE {V("C19", "Pending exceeds the number of submitted jobs")})
       \cup (IF E.w <= Cardinality({j \in sub : deps[j] # <<>>}) THEN {}
             ELSE {V("C19", "Waiting exceeds the number of submitted jobs with dependencies")})
       \cup (IF wait = "returned" /\ res[1] \in {"nil", "errs"}
             THEN {V("C19", "state report after Wait returned from a finished scheduler")} ELSE {}))
  /\ UNCHANGED <<jvars, run, gs, nexit, nruns>>

\* C03, "the capacity is real": the driver enqueued c jobs without dependencies, with a live context,
\* on an otherwise idle scheduler with N >= c workers; p is the largest number of them that were
\* ever in flight together (each waits for the others, up to a timeout)
TCapacity == /\ Is("capacity")
             /\ Record((IF E.p >= E.c THEN {}
                        ELSE {V("C03", "runnable jobs did not run concurrently although workers should be free")})
                       \cup (IF E.p <= E.c THEN {}
                             ELSE {V("C03", "more job bodies in flight than the concurrency limit")}))
             /\ UNCHANGED <<jvars, run, gs, nexit, nruns>>
\* C09, promptness: the context was cancelled while the body of job E.job was held by the driver; p = 1
\* iff Wait returned while that body was still held (the driver waits 1.5 s before giving up)
TPrompt == /\ Is("prompt")
           /\ Record(IF E.p = 1 THEN {}
                     ELSE {V("C09", "Wait did not return after the context was done while a job was still running")})
           /\ UNCHANGED <<jvars, run, gs, nexit, nruns>>
THang == /\ Is("hang") /\ Record({V("C05", "caller stuck: " \o E.note)})
         /\ UNCHANGED <<jvars, run, gs, nexit, nruns>>
TLeak == /\ Is("leak")
         /\ Record({V(IF SubSeq(E.note, 1, 3) = "not" THEN "INCONCLUSIVE" ELSE "C06",
                      "scheduler goroutines survive quiescence: " \o E.note)})
         /\ UNCHANGED <<jvars, run, gs, nexit, nruns>>
TSlow == /\ Is("slow") /\ Record({V("INCONCLUSIVE", E.note)})
         /\ UNCHANGED <<jvars, run, gs, nexit, nruns>>
TInfo == /\ Is("info") /\ UNCHANGED <<jvars, run, viol, gs, nexit, nruns>>
TQuiet == /\ Is("quiet") /\ UNCHANGED <<jvars, run, viol, gs, nexit, nruns>>

\* an event of an earlier run that was logged late (e.g. its cancellation timer fired after the
\* run was over) says nothing about the current run
TStale == /\ l <= Len(Trace) /\ E.ev # "reset" /\ E.run # run /\ l' = l + 1
          /\ UNCHANGED <<jvars, run, viol, gs, nexit, nruns>>

TDone == /\ l = Len(Trace) + 1 /\ l' = l + 1
         /\ PrintT(<<"TRACE-DONE", Len(Trace), nruns, ToJson(viol)>>)
         /\ UNCHANGED <<jvars, run, viol, gs, nexit, nruns>>

TNext == TReset \/ TSubmit \/ TStart \/ TEnd \/ TCancelBegin \/ TCancel \/ TCancel2Begin \/ TCancel2 \/ TWaitCall \/ TWaitRet
         \/ TState \/ TCapacity \/ TPrompt \/ THang \/ TLeak \/ TSlow \/ TQuiet \/ TInfo \/ TStale \/ TDone

TSpec == TInit /\ [][TNext]_tvars

\* Sanity: the whole file is consumed (every line matched some action).
Consumed == TLCGet("stats").diameter >= Len(Trace) + 2
=============================================================================
