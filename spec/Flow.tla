-------------------------------- MODULE Flow --------------------------------
(***************************************************************************)
(* The code cff generates for one cff.Flow, transcribed from the templates *)
(* internal/templates/flow/{flow,task,predicate}.go.tmpl step by step, on  *)
(* top of the scheduler contract (dispatch only after every dependency     *)
(* ended ok, at most N dispatched-or-running, a worker that sees the       *)
(* context done skips the job, fail-fast exit -- the API level that        *)
(* Sched.tla is TLC-checked to refine, JobSys.tla).                        *)
(*                                                                         *)
(* Every behaviour of this module produces exactly the API-level events    *)
(* the harness records from real generated code (argument evaluations,     *)
(* starts and ends of user functions with provenance tokens, emitter       *)
(* callbacks, cancellation stamps, the return with the Results targets),   *)
(* and feeds them to the monitor DirSys.tla, the same monitor that judges  *)
(* the recorded executions.  TLC checks, for every program of ProgFile,    *)
(* every outcome of every user function, every schedule, every concurrency *)
(* value and every cancellation instant:                                   *)
(*    NoViolation : the monitor never records a violation of C01-C11, C15, *)
(*                  C18 (the templates as written satisfy the properties,  *)
(*                  and the monitor raises no alarm on behaviour the       *)
(*                  templates can show);                                   *)
(*    termination : every behaviour ends in the state "over" (deadlock     *)
(*                  check; C05 at the level of the directive).             *)
(*                                                                         *)
(* Template line numbers: task.go.tmpl (T), predicate.go.tmpl (P),         *)
(* flow.go.tmpl (F).                                                       *)
(***************************************************************************)
EXTENDS DirSys, Json

CONSTANTS ProgFile,   \* ndjson, one abstract program (harness/pkg/h.Prog) per line
          Concs,      \* concurrency values explored
          CANCEL      \* BOOLEAN: the context may be cancelled at any instant

Progs == ndJsonDeserialize(ProgFile)

VARIABLES
  p,       \* the program
  conc,    \* the Concurrency argument (effective limit)
  cpc,     \* caller: "pro" | "enq" | "wait" | "defer" | "returned" | "over"
  ei,      \* index of the next function to enqueue
  v,       \* [type -> token]: the vN variables of the generated closure (0 = zero value)
  rs,      \* contents of the Results targets, in p.results order
  js,      \* [unit id -> "none" | "queued" | "disp" | "chk" | "running" | "post" | "ok" | "fail"]: its scheduler job
  jerr,    \* [unit id -> error token of the failed job]
  pend,    \* [unit id -> pending effect of a body between the function's end and the job's end]
  pv,      \* [pred id -> "unset" | "true" | "false"]: pN
  ppanic,  \* [pred id -> BOOLEAN]: pNPanicRecover # nil
  ran,     \* [task id -> BOOLEAN]: taskN.ran
  ctx,     \* "live" | "cancelling" | "closed" | "done": cancel() not called / called / Done() closed / cancel() returned
  stopped, \* the scheduler loop has exited (fail-fast or everything finished): nothing is dispatched any more
  serr,    \* the error the loop exited with (<<"nil", 0>> if none)
  ret,     \* <<>> until the directive returned, then the returned error tokens (<<>> wrapped: <<"nil">> etc.)
  m        \* the monitor (DirSys)
vars == <<p, conc, cpc, ei, v, rs, js, jerr, pend, pv, ppanic, ran, ctx, stopped, serr, ret, m>>

UIds == {u.id : u \in Units(p)}
U(id) == UnitOf(p, id)
TaskIdsF == {u.id : u \in Tasks(p)}
PredIds == {u.id : u \in {x \in Units(p) : x.kind = "pred"}}
Types == 1..p.ntypes

\* canonical topological order of the functions (F:98-100 ranges over TopoFuncs; any topological
\* order is a legal one): units are listed providers-first, a predicate goes before its task
RECURSIVE EnqOrderOf(_)
EnqOrderOf(us) == IF us = <<>> THEN <<>>
                  ELSE LET u == Head(us) IN
                       IF u.kind = "task" THEN (IF u.pred # 0 THEN <<u.pred, u.id>> ELSE <<u.id>>) \o EnqOrderOf(Tail(us))
                       ELSE EnqOrderOf(Tail(us))
EnqOrder == EnqOrderOf(p.units)

\* the scheduler jobs unit id depends on (T:110-119, P:22-31, compile.go:572-600)
JobDeps(id) ==
  LET u == U(id)
      provs == {Provider(p, u.ins[k]) : k \in DOMAIN u.ins} \ {0}
      \* a consumer of a type produced by a task with a predicate does NOT wait for that predicate
      \* explicitly: it waits for the task's job, which waits for the predicate's
  IN IF u.kind = "task" /\ u.pred # 0 THEN provs \cup {u.pred} ELSE provs

Ev(ev) == [ev |-> ev, exec |-> 1, stamp |-> 0, u |-> 0, idx |-> -1, k |-> 0, g |-> 2, toks |-> <<>>, out |-> "",
           kind |-> "", errs |-> <<>>, leaf |-> 0, name |-> "", same |-> FALSE, ctxok |-> TRUE, note |-> ""]

\* Every action below feeds the monitor with the sequence of events it produces (its ...Evs operator);
\* FlowTrace.tla matches the same sequences against the events recorded from the real code.
RECURSIVE Feed(_, _)
Feed(mon, evs) == IF evs = <<>> THEN mon ELSE Feed(MonStep(mon, Head(evs)), Tail(evs))

\* emitter fan-out: every recording leaf gets the event (EmitterStack calls each in turn)
EmitSeq(kind, u, errs, same) ==
  [l \in 1..p.leaves |-> [Ev("emit") EXCEPT !.leaf = l, !.kind = kind, !.u = u, !.errs = errs, !.same = same]]
FlowEmitSeq(kind, errs, same) == IF p.instr THEN EmitSeq(kind, 0, errs, same) ELSE <<>>
TaskEmitSeq(t, kind, errs) == IF U(t).instr THEN EmitSeq(kind, t, errs, FALSE) ELSE <<>>

PrologueEvs == [k \in 1..p.nargsexpr |-> [Ev("arg") EXCEPT !.k = k, !.g = 1]]

----------------------------------------------------------------------------
Init ==
  /\ p \in RangeOf(Progs) /\ p.dir = "flow"
  /\ conc \in Concs
  /\ cpc = "pro" /\ ei = 1
  /\ v = [ty \in Types |-> 0]
  /\ rs = [k \in DOMAIN p.results |-> SENTINEL]
  /\ js = [id \in UIds |-> "none"] /\ jerr = [id \in UIds |-> <<"nil", 0>>] /\ pend = [id \in UIds |-> <<>>]
  /\ pv = [id \in PredIds |-> "unset"] /\ ppanic = [id \in PredIds |-> FALSE]
  /\ ran = [id \in TaskIdsF |-> FALSE]
  /\ ctx = "live" /\ stopped = FALSE /\ serr = <<"nil", 0>> /\ ret = <<>>
  /\ m = MonInit(p, conc, FALSE, 1)

\* prologue (gen.go:430-482, prologue/param_expr.go.tmpl): every user expression is evaluated into
\* _LINE_COL in source order, on the calling goroutine; then F:44-47 bind ctx and the Params values
Prologue ==
  /\ cpc = "pro"
  /\ m' = Feed(m, PrologueEvs)
  /\ v' = [ty \in Types |-> IF ty \in RangeOf(p.params) THEN ParamTok(ty) ELSE 0]
  /\ cpc' = "enq"
  /\ UNCHANGED <<p, conc, ei, rs, js, jerr, pend, pv, ppanic, ran, ctx, stopped, serr, ret>>

\* F:98-100: sched.Enqueue for each function in topological order (T:110, P:22)
Enqueue ==
  /\ cpc = "enq"
  /\ IF ei > Len(EnqOrder) THEN cpc' = "wait" /\ UNCHANGED <<js, ei>>
     ELSE js' = [js EXCEPT ![EnqOrder[ei]] = "queued"] /\ ei' = ei + 1 /\ UNCHANGED cpc
  /\ UNCHANGED <<p, conc, v, rs, jerr, pend, pv, ppanic, ran, ctx, stopped, serr, ret, m>>

----------------------------------------------------------------------------
(* The scheduler, at the level of its contract.                            *)

Busy == Cardinality({id \in UIds : js[id] \in {"disp", "chk", "running", "post"}})
DepsDone(id) == \A d \in JobDeps(id) : js[d] = "ok"
AnyFail == \E id \in UIds : js[id] = "fail"

\* the loop hands a ready job to a worker
Dispatch(id) ==
  /\ js[id] = "queued" /\ ~stopped /\ DepsDone(id) /\ Busy < conc
  /\ js' = [js EXCEPT ![id] = "disp"]
  /\ UNCHANGED <<p, conc, cpc, ei, v, rs, jerr, pend, pv, ppanic, ran, ctx, stopped, serr, ret, m>>

\* the loop exits: it has read a failure (fail-fast), or everything submitted has finished after
\* Wait closed the queue
LoopExit ==
  /\ ~stopped
  /\ \/ \E id \in UIds : js[id] = "fail" /\ serr' = jerr[id]
     \/ cpc \in {"wait", "defer", "returned", "over"} /\ (\A id \in UIds : js[id] = "ok") /\ UNCHANGED serr
  /\ stopped' = TRUE
  /\ UNCHANGED <<p, conc, cpc, ei, v, rs, js, jerr, pend, pv, ppanic, ran, ctx, ret, m>>

CtxSeenDone == ctx \in {"closed", "done"}

\* scheduler.go:145: the worker checks the context before running the job
WorkerCheck(id) ==
  /\ js[id] = "disp"
  /\ IF CtxSeenDone THEN js' = [js EXCEPT ![id] = "fail"] /\ jerr' = [jerr EXCEPT ![id] = <<"CTX", 0>>]
                    ELSE js' = [js EXCEPT ![id] = "chk"] /\ UNCHANGED jerr
  /\ UNCHANGED <<p, conc, cpc, ei, v, rs, pend, pv, ppanic, ran, ctx, stopped, serr, ret, m>>

----------------------------------------------------------------------------
(* Job bodies.                                                             *)

ArgToks(u) == [k \in DOMAIN u.ins |-> v[u.ins[k]]]
BeginEvs(id) == <<[Ev("ustart") EXCEPT !.u = id, !.toks = ArgToks(U(id))]>>
EndEv(id, o) == [Ev("uend") EXCEPT !.u = id, !.out = o]
SetOuts(u, tokOf(_)) == [ty \in Types |-> IF ty \in RangeOf(u.outs) THEN tokOf(IndexOf(u.outs, ty)) ELSE v[ty]]

\* predicate job (P:11-20): the function is called with the vN of its inputs
PredBegin(id) ==
  /\ js[id] = "chk" /\ U(id).kind = "pred"
  /\ js' = [js EXCEPT ![id] = "running"]
  /\ m' = Feed(m, BeginEvs(id))
  /\ UNCHANGED <<p, conc, cpc, ei, v, rs, jerr, pend, pv, ppanic, ran, ctx, stopped, serr, ret>>

\* the predicate function returns true / false or panics; a panic is parked (P:12-17) and the job
\* returns nil either way (P:19)
PredEnd(id, o) ==
  /\ js[id] = "running" /\ U(id).kind = "pred" /\ o \in {"true", "false", "panic"}
  /\ m' = Feed(m, <<EndEv(id, o)>>)
  /\ IF o = "panic" THEN ppanic' = [ppanic EXCEPT ![id] = TRUE] /\ UNCHANGED pv
                    ELSE pv' = [pv EXCEPT ![id] = o] /\ UNCHANGED ppanic
  /\ js' = [js EXCEPT ![id] = "post"] /\ pend' = [pend EXCEPT ![id] = <<"ok">>]
  /\ UNCHANGED <<p, conc, cpc, ei, v, rs, jerr, ran, ctx, stopped, serr, ret>>

\* task job, T:34-108.  The deferred functions are registered (T:37, T:43); then T:79-83:
\* `if !pN { return nil }` -- before `defer ran.Store(true)` (T:85).
\* Case 1: the predicate did not return true: no call; the deferred recover block (T:43-77) finds
\*         the parked predicate panic, if any.
TaskGatedEvs(id) ==
  LET u == U(id) IN
  IF ppanic[u.pred]
  THEN TaskEmitSeq(id, IF u.fb THEN "TaskPanicRecovered" ELSE "TaskPanic", <<<<"P", UnitNum(u.pred, -1)>>>>)
  ELSE <<>>
TaskGated(id) ==
  /\ js[id] = "chk" /\ U(id).kind = "task"
  /\ U(id).pred # 0 /\ pv[U(id).pred] # "true"
  /\ m' = Feed(m, TaskGatedEvs(id))
  /\ LET u == U(id) IN
     IF ppanic[u.pred]
     THEN IF u.fb
          THEN \* T:60-64: TaskPanicRecovered, outputs := fallback values, err := nil
               /\ v' = SetOuts(u, LAMBDA i : FBTokOf(u, i))
               /\ pend' = [pend EXCEPT ![id] = <<"ok">>]
          ELSE \* T:66-71: TaskPanic, err := PanicError{Value: parked value}
               /\ pend' = [pend EXCEPT ![id] = <<"fail", <<"P", UnitNum(u.pred, -1)>>>>]
               /\ UNCHANGED v
     ELSE \* predicate false: return nil, outputs stay zero, ran stays false (no TaskDone, T:37-41)
          /\ pend' = [pend EXCEPT ![id] = <<"ok">>] /\ UNCHANGED v
  /\ js' = [js EXCEPT ![id] = "post"]
  /\ UNCHANGED <<p, conc, cpc, ei, rs, jerr, pv, ppanic, ran, ctx, stopped, serr, ret>>

\* Case 2: the function is called (T:87) with ctx and the vN of its inputs, in parameter order
TaskBegin(id) ==
  /\ js[id] = "chk" /\ U(id).kind = "task"
  /\ (U(id).pred # 0 => pv[U(id).pred] = "true")
  /\ js' = [js EXCEPT ![id] = "running"]
  /\ m' = Feed(m, BeginEvs(id))
  /\ UNCHANGED <<p, conc, cpc, ei, v, rs, jerr, pend, pv, ppanic, ran, ctx, stopped, serr, ret>>

\* the function returns (ok / err) or panics; T:89-105, then the deferred functions in reverse
\* order of registration: ran.Store(true) (T:85), the recover block (T:43-77), TaskDone iff ran (T:37-41)
TaskEndEvs(id, o) ==
  LET u == U(id)
      etok == <<IF o = "err" THEN "E" ELSE "P", UnitNum(id, -1)>>
  IN <<EndEv(id, o)>>
     \o (CASE o = "ok" -> TaskEmitSeq(id, "TaskSuccess", <<>>)                                        \* T:101 / T:104
           [] o = "err" -> TaskEmitSeq(id, IF u.fb THEN "TaskErrorRecovered" ELSE "TaskError", <<etok>>)  \* T:92 / T:97
           [] OTHER -> TaskEmitSeq(id, IF u.fb THEN "TaskPanicRecovered" ELSE "TaskPanic", <<etok>>))     \* T:61 / T:66
     \o TaskEmitSeq(id, "TaskDone", <<>>)                                                              \* T:38-40, ran is true
TaskEnd(id, o) ==
  /\ js[id] = "running" /\ U(id).kind = "task" /\ o \in {"ok", "err", "panic"}
  /\ (o = "err" => U(id).haserr)
  /\ LET u == U(id)
         etok == <<IF o = "err" THEN "E" ELSE "P", UnitNum(id, -1)>>
     IN /\ m' = Feed(m, TaskEndEvs(id, o))
        /\ ran' = [ran EXCEPT ![id] = TRUE]
        /\ v' = CASE o = "ok" -> SetOuts(u, LAMBDA i : OutTok(id, i))
                  [] u.fb -> SetOuts(u, LAMBDA i : FBTokOf(u, i))                             \* T:62-64 / T:93-95
                  [] OTHER -> v
        /\ pend' = [pend EXCEPT ![id] = IF o = "ok" \/ u.fb THEN <<"ok">> ELSE <<"fail", etok>>]
  /\ js' = [js EXCEPT ![id] = "post"]
  /\ UNCHANGED <<p, conc, cpc, ei, rs, jerr, pv, ppanic, ctx, stopped, serr, ret>>

\* the closure has returned; the worker reports the result
JobEnd(id) ==
  /\ js[id] = "post"
  /\ IF pend[id][1] = "ok" THEN js' = [js EXCEPT ![id] = "ok"] /\ UNCHANGED jerr
     ELSE js' = [js EXCEPT ![id] = "fail"] /\ jerr' = [jerr EXCEPT ![id] = pend[id][2]]
  /\ UNCHANGED <<p, conc, cpc, ei, v, rs, pend, pv, ppanic, ran, ctx, stopped, serr, ret, m>>

----------------------------------------------------------------------------
(* Wait and the rest of the wrapper, F:102-112 and the deferred functions. *)

ResultToks == [k \in DOMAIN p.results |-> v[p.results[k]]]

WaitNilEvs == FlowEmitSeq("FlowSuccess", <<>>, FALSE)
WaitErrEvs == FlowEmitSeq("FlowError", <<serr>>, TRUE)
WaitCtxEvs == FlowEmitSeq("FlowError", <<<<"CTX", 0>>>>, TRUE)
\* sched.Wait returns nil: F:107-112
WaitNil ==
  /\ cpc = "wait" /\ stopped /\ \A id \in UIds : js[id] = "ok"
  /\ ctx \in {"live", "cancelling"}        \* Wait re-checks ctx.Err() after finishedc
  /\ rs' = ResultToks
  /\ m' = Feed(m, WaitNilEvs)
  /\ ret' = <<"nil", <<>>>>
  /\ cpc' = "defer"
  /\ UNCHANGED <<p, conc, ei, v, js, jerr, pend, pv, ppanic, ran, ctx, stopped, serr>>

\* sched.Wait returns the failure the loop stopped on: F:102-105
WaitErr ==
  /\ cpc = "wait" /\ stopped /\ serr[1] # "nil"
  /\ LET e == serr IN
     /\ m' = Feed(m, WaitErrEvs)
     /\ ret' = IF e[1] = "CTX" THEN <<"ctx", <<>>>> ELSE <<"errs", <<e>>>>
  /\ cpc' = "defer"
  /\ UNCHANGED <<p, conc, ei, v, rs, js, jerr, pend, pv, ppanic, ran, ctx, stopped, serr>>

\* sched.Wait returns the context's error (scheduler.go:521-522, and 529-531 after finishedc)
WaitCtx ==
  /\ cpc = "wait" /\ CtxSeenDone
  /\ m' = Feed(m, WaitCtxEvs)
  /\ ret' = <<"ctx", <<>>>>
  /\ cpc' = "defer"
  /\ UNCHANGED <<p, conc, ei, v, rs, js, jerr, pend, pv, ppanic, ran, ctx, stopped, serr>>

\* deferred, F:90-96: TaskSkipped for every task whose ran is false (read while tasks may still be
\* running); then F:78: FlowDone.  The wrapper returns: the harness logs "ret".
RECURSIVE SweepSeq(_, _)
SweepSeq(us, errs) ==
  IF us = <<>> THEN <<>>
  ELSE LET u == Head(us) IN
       (IF u.kind = "task" /\ ~ran[u.id] THEN TaskEmitSeq(u.id, "TaskSkipped", errs) ELSE <<>>) \o SweepSeq(Tail(us), errs)
DeferredEvs ==
  LET errs == IF ret[1] = "nil" THEN <<<<"nil", 0>>>> ELSE IF ret[1] = "ctx" THEN <<<<"CTX", 0>>>> ELSE ret[2]
  IN SweepSeq(p.units, errs) \o FlowEmitSeq("FlowDone", <<>>, FALSE)
     \o <<[Ev("ret") EXCEPT !.kind = ret[1], !.errs = ret[2], !.toks = rs, !.g = 1]>>
Deferred ==
  /\ cpc = "defer"
  /\ m' = Feed(m, DeferredEvs)
  /\ cpc' = "returned"
  /\ UNCHANGED <<p, conc, ei, v, rs, js, jerr, pend, pv, ppanic, ran, ctx, stopped, serr, ret>>

\* the harness waits until every started body has returned, then judges the emitter log
Over ==
  /\ cpc = "returned" /\ \A id \in UIds : js[id] \notin {"running", "post"}
  /\ \A id \in UIds : js[id] \notin {"disp", "chk"}
  /\ m' = Feed(m, <<Ev("over")>>)
  /\ cpc' = "over"
  /\ UNCHANGED <<p, conc, ei, v, rs, js, jerr, pend, pv, ppanic, ran, ctx, stopped, serr, ret>>

----------------------------------------------------------------------------
(* Cancellation by the environment (a timer, another goroutine, a task).   *)
CancelEndEvs == IF cpc = "over" THEN <<>> ELSE <<Ev("cancel")>>
CancelBegin == /\ CANCEL /\ ctx = "live" /\ cpc # "over" /\ ctx' = "cancelling"
               /\ m' = Feed(m, <<Ev("cancel_begin")>>)
               /\ UNCHANGED <<p, conc, cpc, ei, v, rs, js, jerr, pend, pv, ppanic, ran, stopped, serr, ret>>
CancelClose == /\ ctx = "cancelling" /\ ctx' = "closed"
               /\ UNCHANGED <<p, conc, cpc, ei, v, rs, js, jerr, pend, pv, ppanic, ran, stopped, serr, ret, m>>
CancelEnd ==   /\ ctx = "closed" /\ ctx' = "done"
               /\ m' = Feed(m, CancelEndEvs)
               /\ UNCHANGED <<p, conc, cpc, ei, v, rs, js, jerr, pend, pv, ppanic, ran, stopped, serr, ret>>

\* after a fail-fast exit nobody runs the jobs that were never dispatched; a job that had been
\* dispatched may still run after the directive returned
Done == cpc = "over" /\ ctx \in {"live", "done"} /\ UNCHANGED vars

Next ==
  \/ Prologue \/ Enqueue \/ LoopExit
  \/ \E id \in UIds : Dispatch(id) \/ WorkerCheck(id) \/ PredBegin(id) \/ TaskGated(id) \/ TaskBegin(id) \/ JobEnd(id)
  \/ \E id \in UIds : \E o \in {"true", "false", "panic"} : PredEnd(id, o)
  \/ \E id \in UIds : \E o \in {"ok", "err", "panic"} : TaskEnd(id, o)
  \/ WaitNil \/ WaitCtx \/ WaitErr \/ Deferred \/ Over
  \/ CancelBegin \/ CancelClose \/ CancelEnd
  \/ Done

Spec == Init /\ [][Next]_vars

NoViolation == m.viol = {}
\* the Results targets are written only on the nil path (C07)
ResultsUntouched == (ret # <<>> /\ ret[1] # "nil") => \A k \in DOMAIN rs : rs[k] = SENTINEL
=============================================================================
