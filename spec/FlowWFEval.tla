----------------------------- MODULE FlowWFEval -----------------------------
(***************************************************************************)
(* Evaluates FlowWF on graphs read from a file (one JSON graph per line,   *)
(* produced by tools/wf_checks.py: random well-formed graphs and every     *)
(* single-defect mutation of them) and prints, per graph, the verdict of   *)
(* the property (IllFormed, with the defect classes) and of the validator  *)
(* transcription (CffRejects).  Linear in the number of graphs.            *)
(***************************************************************************)
EXTENDS FlowWF, Json

CONSTANT GraphFile
Graphs == ndJsonDeserialize(GraphFile)

VARIABLE l
Init == l = 1
Next == /\ l <= Len(Graphs) /\ l' = l + 1
        /\ LET g == Graphs[l].g IN
           PrintT(<<"VERDICT", Graphs[l].id, IllFormed(g), CffRejects(g), ToJson(Defects(g))>>)
Spec == Init /\ [][Next]_l
AgreeInv == l <= Len(Graphs) => Agree(Graphs[l].g)
Consumed == TLCGet("stats").diameter >= Len(Graphs) + 1
=============================================================================
