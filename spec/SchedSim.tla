------------------------------ MODULE SchedSim ------------------------------
(***************************************************************************)
(* Sched with a history of action labels, used to get behaviours out of    *)
(* TLC (tlc -simulate) in a form the Go replayer can follow: the input     *)
(* (dependency lists, outcomes, N, mode) and the sequence of steps.  The   *)
(* replayer performs the steps it controls (Enqueue, releasing a job body, *)
(* cancelling, calling Wait) and waits for the others (the loop's and the  *)
(* workers' steps) to be reported by the hooks before going on, so the     *)
(* real scheduler is walked through the interleaving TLC chose.            *)
(***************************************************************************)
EXTENDS Sched, Json

VARIABLE script
svars == <<vars, script>>

Lbl(op, j, o) == [op |-> op, job |-> j, out |-> o]
Log(op, j, o) == script' = Append(script, Lbl(op, j, o))

\* the simulator draws the per-job contexts at random instead of enumerating them
SimInit == /\ InitBase /\ script = <<>>
           /\ jctx = [j \in Jobs |-> IF CTX2 /\ RandomElement(1..3) = 1 THEN 2 ELSE 1]

SimNext ==
  \/ Cancel /\ RandomElement(1..12) = 1 /\ Log("cancel", 0, "")   \* rarely: Cancel is enabled in every state
  \/ Cancel2 /\ RandomElement(1..12) = 1 /\ Log("cancel2", 0, "")
  \/ CallerEnqueue /\ Log("enq", cpc, "")
  \/ CallerWaitClose /\ Log("close", 0, "")
  \/ (CallerWaitCtx \/ CallerWaitFin) /\ Log("ret", 0, "")
  \/ \E w \in Workers : LoopDispatch(w) /\ Log("w_recv", Head(ready), "")
  \/ LoopRecvEnqueue /\ Log("l_recv_enq", Head(enq), "")
  \/ LoopRecvClosed /\ Log("l_recv_closed", 0, "")
  \/ LoopRecvDone /\ Log("l_recv_done", Head(donec)[1], "")
  \/ (LoopDrainRecv \/ LoopDrainEnd \/ LoopCloseReady \/ LoopCloseFin) /\ UNCHANGED script
  \/ \E w \in Workers :
       \/ WorkerCheck(w) /\ Log("checked", wjob[w], "")
       \/ WorkerRunEnd(w, outcome[wjob[w]]) /\ Log("end", wjob[w], outcome[wjob[w]])
       \/ (WorkerSend(w) \/ WorkerDSend(w)) /\ Log("sent", wjob[w], "")
       \/ WorkerExit(w) /\ UNCHANGED script

SimSpec == SimInit /\ [][SimNext]_svars

\* Printed once per behaviour, in the state that has no successor.
Emit == AllQuiet =>
          PrintT(<<"SCRIPT", ToJson([nj |-> nJ, n |-> nW, coe |-> coe,
                                     deps |-> [j \in 1..nJ |-> deps[j]],
                                     out |-> [j \in 1..nJ |-> outcome[j]],
                                     jctx |-> [j \in 1..nJ |-> jctx[j]],
                                     steps |-> script])>>)
=============================================================================
