------------------------------- MODULE FlowWF -------------------------------
(***************************************************************************)
(* Well-formedness of a cff.Flow graph (property C14), twice:              *)
(*                                                                         *)
(*  1. declaratively, exactly as the property states it (IllFormed);       *)
(*  2. as the validator of /repo/internal is written (CffRejects): the     *)
(*     provider / receiver maps of compileFlow (compile.go:425-448), the   *)
(*     unused-output check (475-483), the breadth-first walk from Results  *)
(*     and Invoke sinks (488-548) and the memoised depth-first cycle       *)
(*     search of cycle.go, transcribed statement by statement.             *)
(*                                                                         *)
(* FlowWFEnum.tla lets TLC enumerate every small graph and check that the  *)
(* two agree; FlowWFEval.tla evaluates both on graphs read from a file.    *)
(* The real cff is then run on renderings of the very same graphs and its  *)
(* accept / reject verdict compared with IllFormed.                        *)
(*                                                                         *)
(* A graph is a record                                                     *)
(*   params  : sequence of value types (1..K), duplicates possible         *)
(*   results : sequence of value types                                     *)
(*   tasks   : sequence of [ins, outs : sequences of types,                *)
(*                           invoke : BOOLEAN,  \* cff.Invoke(true)        *)
(*                           haspred : BOOLEAN, pins : sequence of types]  *)
(* in the order the options are written (the validator's walks depend on   *)
(* that order; the verdict must not).                                      *)
(***************************************************************************)
EXTENDS Integers, Sequences, FiniteSets, TLC

RangeOf(s) == {s[i] : i \in DOMAIN s}
CountIn(s, x) == Cardinality({i \in DOMAIN s : s[i] = x})
NT(g) == Len(g.tasks)
TaskIds(g) == 1..NT(g)

----------------------------------------------------------------------------
(* 1. The property.                                                        *)

ProvidersOf(g, ty) == {i \in TaskIds(g) : ty \in RangeOf(g.tasks[i].outs)}
ConsumedTypes(g) ==
  RangeOf(g.results)
  \cup UNION {RangeOf(g.tasks[i].ins) : i \in TaskIds(g)}
  \cup UNION {RangeOf(g.tasks[i].pins) : i \in {j \in TaskIds(g) : g.tasks[j].haspred}}
ProvidedTypes(g) == RangeOf(g.params) \cup UNION {RangeOf(g.tasks[i].outs) : i \in TaskIds(g)}

MissingProvider(g) == \E ty \in ConsumedTypes(g) : ty \notin ProvidedTypes(g)
DuplicateProvider(g) ==
  \/ \E ty \in ProvidedTypes(g) : Cardinality(ProvidersOf(g, ty)) >= 2          \* two tasks
  \/ \E ty \in RangeOf(g.params) : CountIn(g.params, ty) >= 2                     \* twice in Params
  \/ \E ty \in RangeOf(g.params) : ProvidersOf(g, ty) # {}                        \* Params and a task
  \/ \E i \in TaskIds(g) : \E ty \in RangeOf(g.tasks[i].outs) : CountIn(g.tasks[i].outs, ty) >= 2
UnusedParam(g)  == \E ty \in RangeOf(g.params) : ty \notin ConsumedTypes(g)
UnusedOutput(g) == \E i \in TaskIds(g) : \E ty \in RangeOf(g.tasks[i].outs) : ty \notin ConsumedTypes(g)
NoOutputNoInvoke(g) == \E i \in TaskIds(g) : g.tasks[i].outs = <<>> /\ ~g.tasks[i].invoke

\* Function nodes: task i is node i, its predicate is node NT+i.
PredNode(g, i) == NT(g) + i
Nodes(g) == TaskIds(g) \cup {PredNode(g, i) : i \in {j \in TaskIds(g) : g.tasks[j].haspred}}
\* n depends directly on m
DependsOn(g, n, m) ==
  IF n <= NT(g)
  THEN \/ m \in TaskIds(g) /\ \E ty \in RangeOf(g.tasks[n].ins) : m \in ProvidersOf(g, ty)
       \/ g.tasks[n].haspred /\ m = PredNode(g, n)
  ELSE m \in TaskIds(g) /\ \E ty \in RangeOf(g.tasks[n - NT(g)].pins) : m \in ProvidersOf(g, ty)
RECURSIVE ReachFrom(_, _, _)
ReachFrom(g, frontier, seen) ==      \* nodes reachable in >= 1 step from the initial frontier's predecessors
  LET nxt == {m \in Nodes(g) : \E n \in frontier : DependsOn(g, n, m)} \ seen
  IN IF nxt = {} THEN seen ELSE ReachFrom(g, nxt, seen \cup nxt)
Cycle(g) == \E n \in Nodes(g) : n \in ReachFrom(g, {n}, {})

IllFormed(g) == MissingProvider(g) \/ DuplicateProvider(g) \/ Cycle(g) \/ UnusedParam(g)
                \/ UnusedOutput(g) \/ NoOutputNoInvoke(g)
Defects(g) == (IF MissingProvider(g) THEN {"missing"} ELSE {}) \cup (IF DuplicateProvider(g) THEN {"duplicate"} ELSE {})
              \cup (IF Cycle(g) THEN {"cycle"} ELSE {}) \cup (IF UnusedParam(g) THEN {"unusedparam"} ELSE {})
              \cup (IF UnusedOutput(g) THEN {"unusedoutput"} ELSE {}) \cup (IF NoOutputNoInvoke(g) THEN {"noinvoke"} ELSE {})

----------------------------------------------------------------------------
(* 2. The validator as written.  Types K+i are the Invoke sentinel of task *)
(* i (flow.addNoOutput), types 1000+i the predicate sentinel of task i     *)
(* (flow.addPredicateOutput).  flow.Funcs is: task, then its predicate.    *)

InvTy(i) == 500 + i
PredTy(i) == 1000 + i

\* flow.Funcs as a sequence of nodes (compile.go:401-417)
RECURSIVE FuncSeq(_, _)
FuncSeq(g, i) == IF i > NT(g) THEN <<>>
                 ELSE (IF g.tasks[i].haspred THEN <<i, PredNode(g, i)>> ELSE <<i>>) \o FuncSeq(g, i + 1)
FnDeps(g, n) == IF n <= NT(g)
                THEN g.tasks[n].ins \o (IF g.tasks[n].haspred THEN <<PredTy(n)>> ELSE <<>>)   \* compile.go:671-673
                ELSE g.tasks[n - NT(g)].pins
FnOuts(g, n) == IF n <= NT(g) THEN g.tasks[n].outs ELSE <<PredTy(n - NT(g))>>
HasInvoke(g, n) == n <= NT(g) /\ g.tasks[n].invoke

\* compile.go:425-448.  providers: the LAST function that outputs a type wins (typeutil.Map.Set
\* overwrites before the duplicate is reported).  Yields <<providers, dupFound>>; providers is a
\* function from types to node (0 = none).
AllTypes(g) == ProvidedTypes(g) \cup ConsumedTypes(g) \cup {InvTy(i) : i \in TaskIds(g)} \cup {PredTy(i) : i \in TaskIds(g)}
RECURSIVE SetOuts(_, _, _, _)
SetOuts(outs, n, prov, dup) ==
  IF outs = <<>> THEN <<prov, dup>>
  ELSE SetOuts(Tail(outs), n, [prov EXCEPT ![Head(outs)] = n], dup \/ prov[Head(outs)] # 0)
RECURSIVE BuildProviders(_, _, _, _)
BuildProviders(g, fs, prov, dup) ==
  IF fs = <<>> THEN <<prov, dup>>
  ELSE LET n == Head(fs)
           r == SetOuts(FnOuts(g, n), n, prov, dup)
           p2 == IF HasInvoke(g, n) THEN [r[1] EXCEPT ![InvTy(n)] = n] ELSE r[1]   \* mustSetNoOutputProvider
       IN BuildProviders(g, Tail(fs), p2, r[2])
Providers(g) == BuildProviders(g, FuncSeq(g, 1), [ty \in AllTypes(g) |-> 0], FALSE)

\* receivers: who consumes a type (Results, function dependencies, the Invoke sentinel's own task)
Receivers(g) == RangeOf(g.results)
                \cup UNION {RangeOf(FnDeps(g, n)) : n \in Nodes(g)}
                \cup {InvTy(i) : i \in {j \in TaskIds(g) : g.tasks[j].invoke}}

\* compile.go:333-342: the second occurrence of a type in Params is an error and is dropped
ParamsDup(g) == \E ty \in RangeOf(g.params) : CountIn(g.params, ty) >= 2
\* compile.go:680-685
TaskShapeErr(g) == \E i \in TaskIds(g) : \/ g.tasks[i].outs = <<>> /\ ~g.tasks[i].invoke
                                         \/ g.tasks[i].outs # <<>> /\ g.tasks[i].invoke
\* compile.go:475-483
UnusedOutErr(g) == \E n \in Nodes(g) : \E ty \in RangeOf(FnOuts(g, n)) : ty \notin Receivers(g)

\* compile.go:488-548: breadth-first from Results and Invoke sentinels.
\* Yields <<noProviderFound, params left over>>.
RECURSIVE Bfs(_, _, _, _, _, _)
Bfs(g, prov, queue, visited, inputs, err) ==
  IF queue = <<>> THEN <<err, inputs>>
  ELSE LET t == Head(queue) IN
       IF t \in visited THEN Bfs(g, prov, Tail(queue), visited, inputs, err)
       ELSE IF t \in DOMAIN prov /\ prov[t] # 0
            THEN Bfs(g, prov, Tail(queue) \o FnDeps(g, prov[t]), visited \cup {t}, inputs, err)
            ELSE IF t \in inputs
                 THEN Bfs(g, prov, Tail(queue), visited \cup {t}, inputs \ {t}, err)
                 ELSE Bfs(g, prov, Tail(queue), visited \cup {t}, inputs, TRUE)
InvokeSinks(g) == LET S == {i \in TaskIds(g) : g.tasks[i].invoke}
                  IN [k \in 1..Cardinality(S) |-> InvTy(CHOOSE i \in S : Cardinality({j \in S : j < i}) = k - 1)]
BfsResult(g) == Bfs(g, Providers(g)[1], g.results \o InvokeSinks(g), {}, RangeOf(g.params), FALSE)

\* cycle.go:52-86, findFlowCyclesForFunc.  path is a sequence of types; yields <<found, visited>>.
RECURSIVE CycDfs(_, _, _, _, _)
RECURSIVE CycDeps(_, _, _, _, _, _)
CycDfs(g, prov, path, t, visited) ==
  IF ~(t \in DOMAIN prov /\ prov[t] # 0) THEN <<FALSE, visited>>            \* lines 54-60: Params or missing
  ELSE IF t \in RangeOf(path) THEN <<TRUE, visited>>                         \* lines 66-75
  ELSE IF t \in visited THEN <<FALSE, visited>>                              \* lines 77-80
  ELSE LET r == CycDeps(g, prov, Append(path, t), FnDeps(g, prov[t]), visited, FALSE)   \* lines 82-84
       IN IF r[1] THEN r ELSE <<FALSE, r[2] \cup {t}>>                       \* line 86 (only if no error)
CycDeps(g, prov, path, ds, visited, found) ==
  IF found \/ ds = <<>> THEN <<found, visited>>
  ELSE LET r == CycDfs(g, prov, path, Head(ds), visited)
       IN CycDeps(g, prov, path, Tail(ds), r[2], r[1])
\* cycle.go:37-49, findFlowCycles: every dependency of every function, empty path
RECURSIVE CycAll(_, _, _, _)
CycAll(g, prov, fs, visited) ==
  IF fs = <<>> THEN FALSE
  ELSE LET r == CycDeps(g, prov, <<>>, FnDeps(g, Head(fs)), visited, FALSE)
       IN r[1] \/ CycAll(g, prov, Tail(fs), r[2])
CycleErr(g) == CycAll(g, Providers(g)[1], FuncSeq(g, 1), {})

CffRejects(g) ==
  \/ ParamsDup(g) \/ TaskShapeErr(g) \/ Providers(g)[2] \/ UnusedOutErr(g)
  \/ BfsResult(g)[1] \/ BfsResult(g)[2] # {} \/ CycleErr(g)

\* graphs in the scope of the property: at least one task (cff.Flow refuses none), no Invoke on a
\* task with outputs (a separate usage error)
InScope(g) == NT(g) >= 1 /\ \A i \in TaskIds(g) : ~(g.tasks[i].invoke /\ g.tasks[i].outs # <<>>)
Agree(g) == InScope(g) => (CffRejects(g) <=> IllFormed(g))
=============================================================================
