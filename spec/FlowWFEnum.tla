----------------------------- MODULE FlowWFEnum -----------------------------
(***************************************************************************)
(* The space of small flow graphs as a state machine: Init chooses Params  *)
(* and Results, every AddTask step appends one task (with or without a     *)
(* predicate).  Every reachable state is one graph; TLC's breadth-first    *)
(* search visits each exactly once.  Checked in every state:               *)
(*   Agree  - the validator as written (FlowWF!CffRejects) rejects exactly *)
(*            the graphs the property calls ill-formed (FlowWF!IllFormed); *)
(*   Dump   - (optional) prints the graph with both verdicts as JSON; the  *)
(*            printed graphs are rendered to Go source and given to the    *)
(*            real cff (tools/wf_checks.py).                               *)
(***************************************************************************)
EXTENDS FlowWF, Json

CONSTANTS K,        \* value types 1..K
          MaxT,     \* at most this many tasks
          MaxIn,    \* at most this many inputs / outputs per task
          MaxPin,   \* at most this many predicate inputs
          DUPS,     \* BOOLEAN: duplicate entries in Params and in a task's outputs
          DUMP      \* BOOLEAN

VARIABLE g
Types == 1..K

SortedSeqOf(S) == [i \in 1..Cardinality(S) |-> CHOOSE x \in S : Cardinality({y \in S : y < x}) = i - 1]
SeqsUpTo(n) == {SortedSeqOf(S) : S \in {T \in SUBSET Types : Cardinality(T) <= n}}
ParamChoices == SeqsUpTo(K) \cup (IF DUPS THEN {<<1, 1>>, <<2, 1, 2>>} ELSE {})
OutChoices == SeqsUpTo(MaxIn) \cup (IF DUPS THEN {<<1, 1>>} ELSE {})
TaskChoices ==
  {[ins |-> i, outs |-> o, invoke |-> v, haspred |-> hp, pins |-> p] :
     i \in SeqsUpTo(MaxIn), o \in OutChoices, v \in BOOLEAN, hp \in BOOLEAN, p \in SeqsUpTo(MaxPin)}
GoodTask(t) == /\ (t.invoke => t.outs = <<>>)        \* Invoke on a task with outputs is out of scope
               /\ (~t.haspred => t.pins = <<>>)

Init == g \in {[params |-> p, results |-> r, tasks |-> <<>>] : p \in ParamChoices, r \in SeqsUpTo(K)}
AddTask == /\ NT(g) < MaxT
           /\ \E t \in TaskChoices : GoodTask(t) /\ g' = [g EXCEPT !.tasks = Append(@, t)]
Spec == Init /\ [][AddTask]_g

AgreeInv == Agree(g)
\* the transcription of cycle.go alone against the declarative notion of a cycle, on graphs with
\* unique providers (with duplicate providers the validator follows only the last one)
CycleAlgoSound == (~DuplicateProvider(g)) => (CycleErr(g) <=> Cycle(g))
Dump == DUMP /\ InScope(g) =>
          PrintT(<<"GRAPH", ToJson([g |-> g, ill |-> IllFormed(g), defects |-> Defects(g), rej |-> CffRejects(g)])>>)
=============================================================================
