--------------------------- MODULE ParallelTrace ---------------------------
(***************************************************************************)
(* Validation of recorded executions of freshly generated cff.Parallel     *)
(* code against Parallel.tla itself; see FlowTrace.tla for the method      *)
(* (per-goroutine event lists, one action of the model consumes the next   *)
(* events of one list, silent actions in between, TLC searches for an      *)
(* interleaving).                                                          *)
(***************************************************************************)
EXTENDS Parallel

CONSTANT TraceFile
TF == ndJsonDeserialize(TraceFile)
NT == Len(TF)

VARIABLES ti, cur
tvars == <<vars, ti, cur>>

X == TF[ti]
L(g) == X.lists[g]
PTaskIdsOf(q) == {u.id : u \in {x \in Units(q) : x.kind = "ptask"}}

StateFor(x) ==
  /\ p = x.prog /\ conc = x.conc /\ coe = x.coe /\ cpc = "pro" /\ ei = 1
  /\ js = [i \in Insts(x.prog) |-> "none"] /\ jerr = [i \in Insts(x.prog) |-> <<"nil", 0>>]
  /\ pend = [i \in Insts(x.prog) |-> <<>>]
  /\ ran = [id \in PTaskIdsOf(x.prog) |-> FALSE]
  /\ ctx = "live" /\ stopped = FALSE /\ serr = <<>> /\ ret = <<>>
  /\ m = MonInit(x.prog, x.conc, x.coe, 1)
StateForP(x) ==
  /\ p' = x.prog /\ conc' = x.conc /\ coe' = x.coe /\ cpc' = "pro" /\ ei' = 1
  /\ js' = [i \in Insts(x.prog) |-> "none"] /\ jerr' = [i \in Insts(x.prog) |-> <<"nil", 0>>]
  /\ pend' = [i \in Insts(x.prog) |-> <<>>]
  /\ ran' = [id \in PTaskIdsOf(x.prog) |-> FALSE]
  /\ ctx' = "live" /\ stopped' = FALSE /\ serr' = <<>> /\ ret' = <<>>
  /\ m' = MonInit(x.prog, x.conc, x.coe, 1)

TInit == /\ ti = 1 /\ NT >= 1
         /\ cur = [g \in DOMAIN TF[1].lists |-> 1]
         /\ StateFor(TF[1])
Live == ti <= NT

\* the order of the entries of a combined error is the order in which the loop read the failures
SameBag(a, b) == /\ Len(a) = Len(b)
                 /\ \A x \in {a[i] : i \in DOMAIN a} :
                      Cardinality({i \in DOMAIN a : a[i] = x}) = Cardinality({i \in DOMAIN b : b[i] = x})
Same(r, e) ==
  /\ r.ev = e.ev
  /\ CASE e.ev = "arg" -> r.k = e.k
       [] e.ev = "ustart" -> r.u = e.u /\ r.idx = e.idx /\ r.toks = e.toks
       [] e.ev = "uend" -> r.u = e.u /\ r.idx = e.idx /\ r.out = e.out
       [] e.ev = "emit" -> r.leaf = e.leaf /\ r.kind = e.kind /\ r.u = e.u /\ r.same = e.same
                           /\ (e.errs # <<>> /\ e.kind # "ParallelError" => r.errs = e.errs)
       [] e.ev = "ret" -> r.kind = e.kind /\ (e.kind = "errs" => SameBag(r.errs, e.errs))
       [] OTHER -> TRUE

Matches(g, evs) ==
  /\ cur[g] + Len(evs) - 1 <= Len(L(g))
  /\ \A k \in 1..Len(evs) : Same(L(g)[cur[g] + k - 1], evs[k])
Do(A, evs) ==
  /\ Live /\ A /\ UNCHANGED ti
  /\ IF evs = <<>> THEN UNCHANGED cur
     ELSE \E g \in DOMAIN cur : Matches(g, evs) /\ cur' = [cur EXCEPT ![g] = @ + Len(evs)]

\* the sweep follows the generated `tasks` slice (all Task/Tasks functions in source order, which the
\* abstract program's unit order need not be): TaskSkipped events are matched as a set
DoDeferred ==
  /\ Live /\ cpc = "defer" /\ Deferred /\ UNCHANGED ti
  /\ LET sweep == SweepSeq(p.units, RetErrs)
         n == Len(sweep)
         rest == SubSeq(DeferredEvs, n + 1, Len(DeferredEvs))
     IN \E g \in DOMAIN cur :
          /\ cur[g] + Len(DeferredEvs) - 1 <= Len(L(g))
          /\ \A j \in 1..n : \E i \in 1..n : Same(L(g)[cur[g] + i - 1], sweep[j])
          /\ \A k \in 1..Len(rest) : Same(L(g)[cur[g] + n + k - 1], rest[k])
          /\ cur' = [cur EXCEPT ![g] = @ + Len(DeferredEvs)]

AllConsumed == \A g \in DOMAIN cur : cur[g] = Len(L(g)) + 1
TReset ==
  /\ Live /\ AllConsumed /\ cpc = "over"
  /\ PrintT(<<"TRACE-ACCEPTED", ti, X.exec>>)
  /\ ti' = ti + 1
  /\ IF ti + 1 <= NT
     THEN cur' = [g \in DOMAIN TF[ti + 1].lists |-> 1] /\ StateForP(TF[ti + 1])
     ELSE UNCHANGED <<vars, cur>>

\* Partial-order reduction.  The steps of one job between its dispatch and its first event, and between its
\* last event and the end of the job, involve no other goroutine's events; since no order between the lists is
\* assumed, any accepted interleaving can be rearranged so that (a) a job is dispatched only when its ustart is
\* the next event of some list (or the context is done: the worker will skip it), and is checked and begun at
\* once, and (b) a job that has returned is reported at once.  Only such interleavings are searched.
Pipeline == {i \in I : js[i] \in {"disp", "chk", "post"}}
Quiet == Pipeline = {}
NextIsStart(i) == \E g \in DOMAIN cur : /\ cur[g] <= Len(L(g)) /\ L(g)[cur[g]].ev = "ustart"
                                         /\ L(g)[cur[g]].u = i[1] /\ L(g)[cur[g]].idx = i[2]

TNext ==
  /\ Live
  /\ \/ (Quiet /\ (Do(Prologue, PrologueEvs) \/ Do(Enqueue, <<>>) \/ Do(LoopExit, <<>>)))
     \/ \E i \in I : \/ (Quiet /\ (NextIsStart(i) \/ CtxSeenDone) /\ Do(Dispatch(i), <<>>))
                     \/ (Quiet /\ Do(SkipInvalid(i), <<>>))
                     \/ Do(WorkerCheck(i), <<>>) \/ Do(JobEnd(i), <<>>)
                     \/ Do(Begin(i), BeginEvs(i))
     \/ (Quiet /\ \E i \in I : \E o \in {"ok", "err", "panic"} : Do(End(i, o), EndEvs(i, o)))
     \/ (Quiet /\ (Do(WaitNil, WaitNilEvs) \/ Do(WaitErr, WaitErrEvs) \/ Do(WaitCtx, WaitCtxEvs)))
     \/ (Quiet /\ DoDeferred)
     \/ (Quiet /\ Live /\ Over /\ UNCHANGED <<ti, cur>>)
     \/ (Quiet /\ (Do(CancelBegin, <<Ev("cancel_begin")>>) \/ Do(CancelClose, <<>>) \/ Do(CancelEnd, CancelEndEvs)))
     \/ TReset

TSpec == TInit /\ [][TNext]_tvars
TView == <<conc, coe, cpc, ei, js, jerr, pend, ran, ctx, stopped, serr, ret, ti, cur>>
=============================================================================
