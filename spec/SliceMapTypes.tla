---------------------------- MODULE SliceMapTypes ----------------------------
(***************************************************************************)
(* Second half of C14: cff.Slice / cff.Map are accepted exactly when the   *)
(* collection's element (key, value) type is assignable to the matching    *)
(* parameter of the function.                                              *)
(*                                                                         *)
(* A small lattice of Go types, described by what the assignability rules  *)
(* of the Go specification look at: whether the type is named, (a name     *)
(* for) its underlying type, whether it is an interface and its method     *)
(* set.  go is the spelling the renderer uses; decl a declaration it       *)
(* needs.  Assignable(V, T) is the Go rule restricted to this lattice:     *)
(*   - V and T are identical, or                                           *)
(*   - V and T have identical underlying types and at least one of them is *)
(*     not a named type, or                                                *)
(*   - T is an interface type and V implements T.                          *)
(* TLC enumerates every (element type, parameter type, position) triple    *)
(* and prints it with the expected verdict; tools/wf_checks.py renders     *)
(* each as a cff.Parallel and compares the real cff's verdict.             *)
(***************************************************************************)
EXTENDS Integers, Sequences, FiniteSets, TLC, Json

Ty(go, named, under, iface, methods, cmp) ==
  [go |-> go, named |-> named, under |-> under, iface |-> iface, methods |-> methods, cmp |-> cmp]

Universe == {
  Ty("int",            TRUE,  "int",      FALSE, {},                          TRUE),
  Ty("MyInt",          TRUE,  "int",      FALSE, {"String"},                  TRUE),   \* type MyInt int; func (MyInt) String() string
  Ty("OtherInt",       TRUE,  "int",      FALSE, {},                          TRUE),   \* type OtherInt int
  Ty("[]byte",         FALSE, "[]byte",   FALSE, {},                          FALSE),
  Ty("Bytes",          TRUE,  "[]byte",   FALSE, {},                          FALSE),  \* type Bytes []byte
  Ty("struct{ X int }", FALSE, "struct",  FALSE, {},                          TRUE),
  Ty("S1",             TRUE,  "struct",   FALSE, {},                          TRUE),   \* type S1 struct{ X int }
  Ty("S2",             TRUE,  "struct",   FALSE, {"Read"},                    TRUE),   \* type S2 struct{ X int }; func (S2) Read([]byte) (int, error)
  Ty("*bytes.Buffer",  FALSE, "*Buffer",  FALSE, {"Read", "Write", "String"}, TRUE),
  Ty("io.Reader",      TRUE,  "iReader",  TRUE,  {"Read"},                    TRUE),
  Ty("io.ReadWriter",  TRUE,  "iRW",      TRUE,  {"Read", "Write"},           TRUE),
  Ty("fmt.Stringer",   TRUE,  "iStringer", TRUE, {"String"},                  TRUE),
  Ty("interface{ Read(p []byte) (n int, err error) }", FALSE, "iReader", TRUE, {"Read"}, TRUE),
  Ty("any",            TRUE,  "iEmpty",   TRUE,  {},                          TRUE)
}
\* `any` is an alias of interface{} -- an unnamed type; it is listed as named with a unique
\* underlying type only so that rule 2 never fires for it (rule 3 decides everything about it).

Assignable(V, T) ==
  \/ V = T
  \/ V.under = T.under /\ (~V.named \/ ~T.named)
  \/ T.iface /\ T.methods \subseteq V.methods

Positions == {"selem", "selemidx", "mkey", "mval"}
Cases == {[v |-> V.go, t |-> T.go, pos |-> p, ok |-> Assignable(V, T)] :
            V \in {X \in Universe : TRUE}, T \in Universe, p \in Positions}
ValidCases == {c \in Cases : c.pos = "mkey" =>
                 (\E V \in Universe : V.go = c.v /\ V.cmp)}      \* a map key type must be comparable

\* sanity of the rule on the lattice: reflexive; an interface accepts everything that implements it;
\* two distinct named non-interface types are never assignable
Sane == /\ \A V \in Universe : Assignable(V, V)
        /\ \A V, T \in Universe : (V # T /\ V.named /\ T.named /\ ~T.iface) => ~Assignable(V, T)
        /\ \A V \in Universe : \E T \in Universe : T.go = "any" /\ Assignable(V, T)

VARIABLE done
Init == done = FALSE
Next == ~done /\ done' = TRUE /\ PrintT(<<"CASES", ToJson(ValidCases)>>)
Spec == Init /\ [][Next]_done
SaneInv == Sane
=============================================================================
