----------------------------- MODULE FlowTrace -----------------------------
(***************************************************************************)
(* Validation of recorded executions of freshly generated cff.Flow code    *)
(* against Flow.tla itself (the templates as transcribed), not only        *)
(* against the property monitor.                                           *)
(*                                                                         *)
(* tools/gen_checks.py splits the events of one execution by the goroutine *)
(* that logged them (list 1: the calling goroutine; then one list per      *)
(* worker goroutine; last: the cancellation stamps, whose goroutine is not *)
(* recorded).  Each action of Flow produces a sequence of events (its      *)
(* ...Evs operator); a step of the trace spec is an action of Flow whose   *)
(* events are exactly the next events of ONE of the lists.  Actions that   *)
(* produce no event (enqueue, dispatch, the worker's context check, the    *)
(* end of a job, the loop's exit) are silent.  No order between the lists  *)
(* is assumed: what one goroutine logs between two events of another is    *)
(* not atomic in the code although it is one step in Flow.tla (e.g. the    *)
(* deferred TaskSkipped sweep may read `ran` between a task's return and   *)
(* its `ran.Store`), so TLC searches for an interleaving.                  *)
(*                                                                         *)
(* An execution is accepted when all its lists are consumed and the model  *)
(* has reached "over".  A rejected execution means the generated code no   *)
(* longer behaves like Flow.tla (MODEL-MISMATCH), which is not by itself a *)
(* violation of a listed property.                                         *)
(***************************************************************************)
EXTENDS Flow

CONSTANT TraceFile
TF == ndJsonDeserialize(TraceFile)
NT == Len(TF)

VARIABLES ti,   \* index of the current execution
          cur   \* cur[g]: next unconsumed event of list g
tvars == <<vars, ti, cur>>

X == TF[ti]
L(g) == X.lists[g]

UIdsOf(q) == {u.id : u \in Units(q)}
TaskIdsOf(q) == {u.id : u \in Tasks(q)}
PredIdsOf(q) == {u.id : u \in {x \in Units(q) : x.kind = "pred"}}

StateFor(x) ==
  /\ p = x.prog /\ conc = x.conc /\ cpc = "pro" /\ ei = 1
  /\ v = [ty \in 1..x.prog.ntypes |-> 0]
  /\ rs = [k \in DOMAIN x.prog.results |-> SENTINEL]
  /\ js = [id \in UIdsOf(x.prog) |-> "none"] /\ jerr = [id \in UIdsOf(x.prog) |-> <<"nil", 0>>]
  /\ pend = [id \in UIdsOf(x.prog) |-> <<>>]
  /\ pv = [id \in PredIdsOf(x.prog) |-> "unset"] /\ ppanic = [id \in PredIdsOf(x.prog) |-> FALSE]
  /\ ran = [id \in TaskIdsOf(x.prog) |-> FALSE]
  /\ ctx = "live" /\ stopped = FALSE /\ serr = <<"nil", 0>> /\ ret = <<>>
  /\ m = MonInit(x.prog, x.conc, FALSE, 1)
StateForP(x) ==
  /\ p' = x.prog /\ conc' = x.conc /\ cpc' = "pro" /\ ei' = 1
  /\ v' = [ty \in 1..x.prog.ntypes |-> 0]
  /\ rs' = [k \in DOMAIN x.prog.results |-> SENTINEL]
  /\ js' = [id \in UIdsOf(x.prog) |-> "none"] /\ jerr' = [id \in UIdsOf(x.prog) |-> <<"nil", 0>>]
  /\ pend' = [id \in UIdsOf(x.prog) |-> <<>>]
  /\ pv' = [id \in PredIdsOf(x.prog) |-> "unset"] /\ ppanic' = [id \in PredIdsOf(x.prog) |-> FALSE]
  /\ ran' = [id \in TaskIdsOf(x.prog) |-> FALSE]
  /\ ctx' = "live" /\ stopped' = FALSE /\ serr' = <<"nil", 0>> /\ ret' = <<>>
  /\ m' = MonInit(x.prog, x.conc, FALSE, 1)

TInit == /\ ti = 1 /\ NT >= 1
         /\ cur = [g \in DOMAIN TF[1].lists |-> 1]
         /\ StateFor(TF[1])

Live == ti <= NT

\* a recorded event r is the event e the model produces
Same(r, e) ==
  /\ r.ev = e.ev
  /\ CASE e.ev = "arg" -> r.k = e.k
       [] e.ev = "ustart" -> r.u = e.u /\ r.toks = e.toks
       [] e.ev = "uend" -> r.u = e.u /\ r.out = e.out
       [] e.ev = "emit" -> r.leaf = e.leaf /\ r.kind = e.kind /\ r.u = e.u /\ r.same = e.same
                           /\ (e.errs # <<>> => r.errs = e.errs)
       [] e.ev = "ret" -> r.kind = e.kind /\ r.errs = e.errs /\ r.toks = e.toks
       [] OTHER -> TRUE

Matches(g, evs) ==
  /\ cur[g] + Len(evs) - 1 <= Len(L(g))
  /\ \A k \in 1..Len(evs) : Same(L(g)[cur[g] + k - 1], evs[k])

\* action A of Flow, whose events evs (computed in the current state) are the next events of one list
Do(A, evs) ==
  /\ Live /\ A /\ UNCHANGED ti
  /\ IF evs = <<>> THEN UNCHANGED cur
     ELSE \E g \in DOMAIN cur : Matches(g, evs) /\ cur' = [cur EXCEPT ![g] = @ + Len(evs)]

\* The deferred sweep (F:90-96) walks the generated `tasks` slice, whose order is the generator's topological
\* order, which the abstract program does not fix: the TaskSkipped events are matched as a set, each task's
\* leaves in order; FlowDone and the return follow in order.
DoDeferred ==
  /\ Live /\ cpc = "defer" /\ Deferred /\ UNCHANGED ti
  /\ LET errs == IF ret[1] = "nil" THEN <<<<"nil", 0>>>> ELSE IF ret[1] = "ctx" THEN <<<<"CTX", 0>>>> ELSE ret[2]
         sweep == SweepSeq(p.units, errs)
         n == Len(sweep)
         rest == SubSeq(DeferredEvs, n + 1, Len(DeferredEvs))
     IN \E g \in DOMAIN cur :
          /\ cur[g] + Len(DeferredEvs) - 1 <= Len(L(g))
          /\ \A j \in 1..n : \E i \in 1..n : Same(L(g)[cur[g] + i - 1], sweep[j])
          /\ \A k \in 1..Len(rest) : Same(L(g)[cur[g] + n + k - 1], rest[k])
          /\ cur' = [cur EXCEPT ![g] = @ + Len(DeferredEvs)]

AllConsumed == \A g \in DOMAIN cur : cur[g] = Len(L(g)) + 1

TReset ==
  /\ Live /\ AllConsumed /\ cpc = "over"
  /\ PrintT(<<"TRACE-ACCEPTED", ti, X.exec>>)
  /\ ti' = ti + 1
  /\ IF ti + 1 <= NT
     THEN cur' = [g \in DOMAIN TF[ti + 1].lists |-> 1] /\ StateForP(TF[ti + 1])
     ELSE UNCHANGED <<vars, cur>>

\* Partial-order reduction (see ParallelTrace.tla): a job is dispatched only when its first event is the next
\* event of some list (or it is a gated task that will not be called, or the context is done), is checked and
\* begun at once, and is reported at once when its function has returned.
Pipeline == {id \in UIds : js[id] \in {"disp", "chk", "post"}}
Quiet == Pipeline = {}
NextIsStart(id) == \E g \in DOMAIN cur : cur[g] <= Len(L(g)) /\ L(g)[cur[g]].ev = "ustart" /\ L(g)[cur[g]].u = id
WillBeGated(id) == U(id).kind = "task" /\ U(id).pred # 0 /\ pv[U(id).pred] # "true"

TNext ==
  /\ Live
  /\ \/ (Quiet /\ (Do(Prologue, PrologueEvs) \/ Do(Enqueue, <<>>) \/ Do(LoopExit, <<>>)))
     \/ \E id \in UIds : \/ (Quiet /\ (NextIsStart(id) \/ WillBeGated(id) \/ CtxSeenDone) /\ Do(Dispatch(id), <<>>))
                         \/ Do(WorkerCheck(id), <<>>) \/ Do(JobEnd(id), <<>>)
                         \/ Do(PredBegin(id), BeginEvs(id)) \/ Do(TaskBegin(id), BeginEvs(id))
                         \/ (U(id).kind = "task" /\ U(id).pred # 0 /\ Do(TaskGated(id), TaskGatedEvs(id)))
     \/ (Quiet /\ \E id \in UIds : \E o \in {"true", "false", "panic"} : Do(PredEnd(id, o), <<EndEv(id, o)>>))
     \/ (Quiet /\ \E id \in UIds : \E o \in {"ok", "err", "panic"} : U(id).kind = "task" /\ Do(TaskEnd(id, o), TaskEndEvs(id, o)))
     \/ (Quiet /\ (Do(WaitNil, WaitNilEvs) \/ Do(WaitErr, WaitErrEvs) \/ Do(WaitCtx, WaitCtxEvs)))
     \/ (Quiet /\ DoDeferred)
     \/ (Quiet /\ Live /\ Over /\ UNCHANGED <<ti, cur>>)       \* the "over" event is not part of the lists
     \/ (Quiet /\ (Do(CancelBegin, <<Ev("cancel_begin")>>) \/ Do(CancelClose, <<>>) \/ Do(CancelEnd, CancelEndEvs)))
     \/ TReset

TSpec == TInit /\ [][TNext]_tvars
\* The monitor state is determined by the consumed events up to their interleaving and plays no part in
\* acceptance: states that differ only in it need not be told apart.
TView == <<conc, cpc, ei, v, rs, js, jerr, pend, pv, ppanic, ran, ctx, stopped, serr, ret, ti, cur>>
=============================================================================
