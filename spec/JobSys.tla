------------------------------- MODULE JobSys -------------------------------
(***************************************************************************)
(* What a user of the scheduler (and hence of Flow/Parallel) may rely on:   *)
(* the API-level contract, containing exactly what properties C01, C03,    *)
(* C07, C08 and C09 state and nothing about how the scheduler is built     *)
(* (no FIFO order, no channels, no goroutines).  A legitimate refactoring  *)
(* of the scheduler still satisfies it.                                    *)
(*                                                                         *)
(* Events: Submit(j) (Enqueue is called), Start(j)/End(j,o) (the job body  *)
(* begins / finishes), Cancel (the context became done), WaitCall,         *)
(* WaitReturn(r).  These are exactly the events the harness stamps with a  *)
(* global atomic counter, so a recorded run is a behaviour of this spec    *)
(* iff the properties held on it (JobSysTrace.tla).                        *)
(***************************************************************************)
EXTENDS Integers, Sequences, FiniteSets, TLC

CONSTANT J                 \* jobs are 1..J
Jobs == 1..J

VARIABLES nJ,        \* number of jobs of this run (jobs 1..nJ)
          N,         \* concurrency limit
          coe,       \* ContinueOnError
          deps,      \* [Jobs -> Seq(Jobs)], only earlier jobs
          cls,       \* [Jobs -> Nat]: jobs of one class return the very same error value
          sub,       \* set of submitted jobs
          st,        \* [Jobs -> {"pending","running","ok","err","exit"}]
          ctxMay,    \* the context may be done (its cancellation has begun / it has a deadline)
          ctxDone,   \* the context is certainly done (its cancellation has completed)
          doomed,    \* jobs that may never start any more (C09)
          jc,        \* [Jobs -> {1, 2}]: the context job j was enqueued with (1 = the one given to Wait;
                     \* Enqueue takes a context per job, so a second one may be in play)
          c2May,     \* the second context may be done
          c2Done,    \* the second context is certainly done
          wait,      \* "open" | "called" | "returned"
          ctxAtCall, \* the context was already done when Wait was called
          res        \* result of Wait: <<"none">> | <<"nil">> | <<"ctx">> | <<"errs", seq of tokens>>
jvars == <<nJ, N, coe, deps, cls, sub, st, ctxMay, ctxDone, doomed, jc, c2May, c2Done, wait, ctxAtCall, res>>

RangeOf(s) == {s[i] : i \in DOMAIN s}
DepSet(j) == RangeOf(deps[j])
NRun == Cardinality({j \in Jobs : st[j] = "running"})
Ended(j) == st[j] \in {"ok", "err", "exit"}
Failed(j) == st[j] \in {"err", "exit"}
ErrTokOf(j) == IF st[j] = "err" THEN <<"E", cls[j]>> ELSE <<"X", 0>>
CTXTOK == <<"CTX", 0>>

JInit == /\ sub = {} /\ st = [j \in Jobs |-> "pending"] /\ ctxMay = FALSE /\ ctxDone = FALSE /\ doomed = {}
         /\ c2May = FALSE /\ c2Done = FALSE
         /\ wait = "open" /\ ctxAtCall = FALSE /\ res = <<"none">>

\* Enqueue may only name jobs returned by earlier Enqueue calls.
Submit(j) == /\ wait = "open" /\ j \in 1..nJ /\ j \notin sub /\ DepSet(j) \subseteq sub
             /\ sub' = sub \cup {j}
             /\ UNCHANGED <<nJ, jc, N, coe, deps, cls, st, ctxMay, ctxDone, doomed, wait, ctxAtCall, res, c2May, c2Done>>

\* Guards of Start, one per property, so that a trace checker can tell which one failed.
StartG_Once(j) == j \in sub /\ st[j] = "pending"           \* C01: at most once
StartG_Deps(j) == \A d \in DepSet(j) : st[d] = "ok"         \* C01: every dependency succeeded
StartG_Conc(j) == NRun < N                                 \* C03: at most N at once
StartG_Ctx(j)  == j \notin doomed                          \* C09: nothing starts after cancellation
StartEff(j) == /\ st' = [st EXCEPT ![j] = "running"]
               /\ UNCHANGED <<nJ, jc, N, coe, deps, cls, sub, ctxMay, ctxDone, doomed, wait, ctxAtCall, res, c2May, c2Done>>
Start(j) == StartG_Once(j) /\ StartG_Deps(j) /\ StartG_Conc(j) /\ StartG_Ctx(j) /\ StartEff(j)

End(j, o) == /\ st[j] = "running" /\ o \in {"ok", "err", "exit"}
             /\ st' = [st EXCEPT ![j] = o]
             /\ UNCHANGED <<nJ, jc, N, coe, deps, cls, sub, ctxMay, ctxDone, doomed, wait, ctxAtCall, res, c2May, c2Done>>

\* The three concrete cases of C09: at the instant the context becomes done, a job that has
\* not started can never start if it was not submitted yet, or one of its dependencies has
\* not finished yet, or every worker is busy.
DoomedAll == {j \in 1..nJ : st[j] = "pending" /\
                 (j \notin sub \/ (\E d \in DepSet(j) : ~Ended(d)) \/ NRun = N)}
\* ... among the jobs enqueued with context c; a job with the other context is not affected
DoomedFor(c) == {j \in DoomedAll : jc[j] = c}
DoomedSet == doomed \cup DoomedFor(1)

\* Cancellation has a beginning (cancel() is called, or a deadline was set: from here on the
\* context may be seen done) and an end (cancel() has returned / Done() was observed closed:
\* from here on everybody sees it done).  The harness stamps both.
CancelBegin == /\ ~ctxMay /\ ctxMay' = TRUE
               /\ UNCHANGED <<nJ, jc, N, coe, deps, cls, sub, st, ctxDone, doomed, wait, ctxAtCall, res, c2May, c2Done>>

Cancel == /\ ctxMay /\ ~ctxDone /\ ctxDone' = TRUE
          /\ doomed' = DoomedSet
          /\ UNCHANGED <<nJ, jc, N, coe, deps, cls, sub, st, ctxMay, wait, ctxAtCall, res, c2May, c2Done>>

\* both at once (the grain of Sched.tla)
CancelNow == /\ ~ctxMay /\ ctxMay' = TRUE /\ ctxDone' = TRUE
             /\ doomed' = DoomedSet
             /\ UNCHANGED <<nJ, jc, N, coe, deps, cls, sub, st, wait, ctxAtCall, res, c2May, c2Done>>

\* a job body that cancels the context as its last act (one step in Sched.tla)
EndCancel(j) == /\ st[j] = "running" /\ ~ctxMay
                /\ st' = [st EXCEPT ![j] = "ok"] /\ ctxMay' = TRUE /\ ctxDone' = TRUE
                /\ doomed' = DoomedSet
                /\ UNCHANGED <<nJ, jc, N, coe, deps, cls, sub, wait, ctxAtCall, res, c2May, c2Done>>

\* the second context (only jobs enqueued with it are affected; Wait does not watch it)
Cancel2Begin == /\ ~c2May /\ c2May' = TRUE
                /\ UNCHANGED <<nJ, jc, N, coe, deps, cls, sub, st, ctxMay, ctxDone, doomed, c2Done, wait, ctxAtCall, res>>
Cancel2 == /\ c2May /\ ~c2Done /\ c2Done' = TRUE
           /\ doomed' = doomed \cup DoomedFor(2)
           /\ UNCHANGED <<nJ, jc, N, coe, deps, cls, sub, st, ctxMay, ctxDone, c2May, wait, ctxAtCall, res>>
Cancel2Now == /\ ~c2May /\ c2May' = TRUE /\ c2Done' = TRUE
              /\ doomed' = doomed \cup DoomedFor(2)
              /\ UNCHANGED <<nJ, jc, N, coe, deps, cls, sub, st, ctxMay, ctxDone, wait, ctxAtCall, res>>

WaitCall == /\ wait = "open" /\ wait' = "called" /\ ctxAtCall' = ctxDone
            /\ UNCHANGED <<nJ, jc, N, coe, deps, cls, sub, st, ctxMay, ctxDone, doomed, res, c2May, c2Done>>

RECURSIVE TransOK(_)
TransOK(j) == \A d \in DepSet(j) : st[d] = "ok" /\ TransOK(d)

Count(s, t) == Cardinality({i \in DOMAIN s : s[i] = t})
FailedSet == {j \in sub : Failed(j)}

AnyCtxMay == ctxMay \/ c2May
MayOf(j) == IF jc[j] = 1 THEN ctxMay ELSE c2May     \* the context job j was enqueued with may be done
\* the result r is one Wait may return in the current state
WaitOK(r) ==
  \/ /\ r = <<"nil">>                      \* C07/C08: nil means everything ran and succeeded
     /\ \A j \in sub : st[j] = "ok"
     /\ ~ctxAtCall                          \* C07: and the context was not cancelled
  \/ /\ r = <<"ctx">> /\ AnyCtxMay         \* C09: a context's error (Wait's own, or the one a skipped job was enqueued with)
  \/ /\ ~coe /\ \E j \in FailedSet : r = <<"errs", <<ErrTokOf(j)>>>>   \* C07: a real failure
  \/ /\ ~coe /\ AnyCtxMay /\ r = <<"errs", <<CTXTOK>>>>             \* a job skipped by cancellation
  \/ /\ coe /\ r[1] = "errs"               \* C08
     /\ LET es == r[2]
            nonctx == SelectSeq(es, LAMBDA e : e # CTXTOK)
        IN /\ Len(es) > 0
           /\ \A i \in DOMAIN nonctx : \E j \in FailedSet : nonctx[i] = ErrTokOf(j)  \* only real failures, no sentinel
           /\ \A j \in FailedSet :                                                  \* each exactly once
                 Count(nonctx, ErrTokOf(j)) = Cardinality({k \in FailedSet : ErrTokOf(k) = ErrTokOf(j)})
           /\ Len(es) - Len(nonctx) <= Cardinality({j \in sub : st[j] = "pending"})
           /\ (Len(nonctx) < Len(es) => AnyCtxMay)                           \* ctx errors only if cancelled
           /\ \A j \in sub : st[j] # "running"                               \* it waited for everything
           /\ \A j \in sub : (TransOK(j) /\ ~MayOf(j)) => Ended(j)           \* everything runnable ran

WaitEff(r) == /\ wait' = "returned" /\ res' = r
              /\ UNCHANGED <<nJ, jc, N, coe, deps, cls, sub, st, ctxMay, ctxDone, doomed, ctxAtCall, c2May, c2Done>>
WaitReturn(r) == wait = "called" /\ WaitOK(r) /\ WaitEff(r)
=============================================================================
