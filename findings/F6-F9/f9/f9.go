//go:build cff

package f9

import (
	"context"
	"errors"

	"go.uber.org/cff"
)

// Run has a task whose parameter is of type error (a named type of the universe scope).
// Before fix 111baea the generator died with a nil pointer dereference in isContext.
func Run(ctx context.Context) (string, error) {
	var out string
	ferr := cff.Flow(ctx,
		cff.Params(errors.New("value")),
		cff.Results(&out),
		cff.Task(func(e error) string { return e.Error() }),
	)
	return out, ferr
}
