//go:build cff

package f10

import (
	"context"

	cff2 "go.uber.org/cff"

	"go.uber.org/cff"
)

var _ = cff2.NopEmitter

// Run lives in a file that imports the cff package under two names and uses the unnamed import
// only in directives.
func Run(ctx context.Context) (int, error) {
	var out int
	err := cff.Flow(ctx,
		cff.Results(&out),
		cff.Task(func() int { return 1 }),
	)
	return out, err
}
