module kf

go 1.19

require go.uber.org/cff v0.1.0

replace go.uber.org/cff => /repo
