//go:build cff

package f8

import (
	"context"
	"errors"

	"go.uber.org/cff"
)

// Run passes a user variable named err to the flow.
func Run(ctx context.Context) (string, error) {
	err := errors.New("user value")
	var out string
	ferr := cff.Flow(ctx,
		cff.Params(err),
		cff.Results(&out),
		cff.Task(func(e error) string { return e.Error() }),
	)
	return out, ferr
}
