//go:build cff

package f7

import (
	"context"

	"go.uber.org/cff"
)

// Outer runs a flow one of whose tasks runs a flow itself.
func Outer(ctx context.Context) (int, error) {
	var out int
	err := cff.Flow(ctx,
		cff.Results(&out),
		cff.Task(func(ctx context.Context) (int, error) {
			var inner int
			err := cff.Flow(ctx,
				cff.Results(&inner),
				cff.Task(func() int { return 7 }),
			)
			return inner, err
		}),
	)
	return out, err
}
