//go:build cff

package f6

import (
	"context"

	"go.uber.org/cff"
)

// Run has a parameter named like a package generated code refers to.
func Run(ctx context.Context, debug bool) (int, error) {
	var out int
	err := cff.Flow(ctx,
		cff.Results(&out),
		cff.Task(func() int {
			if debug {
				return 1
			}
			return 2
		}),
	)
	return out, err
}
