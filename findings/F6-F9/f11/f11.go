//go:build cff

//line templates/f11_tmpl.go:100
package f11

import (
	"context"

	"go.uber.org/cff"
)

// Run sits in a file that carries a //line directive (as machine-written sources do).
// Before fix 9069a73, `cff -genmode=source-map` rejected this file ("invalid column number: 0"):
// the line directives of the source map were computed from positions adjusted by the
// source's own //line directive.  Base mode accepted it.
func Run(ctx context.Context) (string, error) {
	var out string
	err := cff.Flow(ctx,
		cff.Params(41),
		cff.Results(&out),
		cff.Task(func(n int) string { return "f11" }),
	)
	return out, err
}
