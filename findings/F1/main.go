package main

import (
	"context"
	"errors"
	"fmt"
	"math/rand"
	"runtime"
	"strings"
	"sync"
	"time"

	"go.uber.org/cff/scheduler"
)

type em struct {
	mu   sync.Mutex
	rng  *rand.Rand
	bad  int
	n    int
	max  int
	conc int
}

func (e *em) Emit(s scheduler.State) {
	e.mu.Lock()
	e.n++
	ex := s.Pending - s.Ready - s.Waiting
	if ex > e.max {
		e.max = ex
	}
	if ex > s.Concurrency || ex < 0 || s.IdleWorkers != s.Concurrency-ex {
		e.bad++
	}
	d := e.rng.Intn(40)
	e.mu.Unlock()
	time.Sleep(time.Duration(d) * time.Microsecond)
}

func leaked() int {
	buf := make([]byte, 1<<20)
	n := runtime.Stack(buf, true)
	return strings.Count(string(buf[:n]), "scheduler.worker(")
}

func main() {
	e := &em{rng: rand.New(rand.NewSource(1))}
	boom := errors.New("boom")
	for r := 0; r < 200; r++ {
		s := scheduler.Config{Concurrency: 2, Emitter: e, StateFlushFrequency: time.Nanosecond}.New()
		ctx := context.Background()
		for j := 0; j < 40; j++ {
			j := j
			s.Enqueue(ctx, scheduler.Job{Run: func(context.Context) error {
				if j == 20 {
					return boom
				}
				return nil
			}})
		}
		_ = s.Wait(ctx)
	}
	time.Sleep(100 * time.Millisecond)
	fmt.Printf("unmodified /repo, no hooks: states=%d inconsistent=%d maxExecuting=%d (N=2) leaked workers=%d\n", e.n, e.bad, e.max, leaked())
}
