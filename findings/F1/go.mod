module verif/findings/f1

go 1.19

require go.uber.org/cff v0.1.0

require go.uber.org/multierr v1.11.0 // indirect

replace go.uber.org/cff => /repo
