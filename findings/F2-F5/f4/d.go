//go:build cff

package f4

import (
	"context"
	tm "time"

	"go.uber.org/cff"
)

var T tm.Duration

func D(ctx context.Context) (int, error) {
	var r int
	err := cff.Flow(ctx, cff.Results(&r), cff.Task(func() int { return 1 }))
	return r, err
}
