//go:build cff

package f2a

import (
	"bytes"
	"context"
	"io"

	"go.uber.org/cff"
)

// element type *bytes.Buffer is assignable to the parameter type io.Reader: must be accepted.
func A(ctx context.Context, s []*bytes.Buffer, m map[string]*bytes.Buffer) error {
	return cff.Parallel(ctx,
		cff.Slice(func(r io.Reader) {}, s),
		cff.Map(func(k string, r io.Reader) {}, m),
	)
}
