//go:build cff

package f5

import (
	"context"

	"go.uber.org/cff"
)

func E(ctx context.Context, b bool) error {
	return cff.Flow(ctx, cff.Task(func() {}, cff.Invoke(b)))
}
