//go:build cff

package f3

import (
	"context"

	"go.uber.org/cff"
)

func C(ctx context.Context, s []int) error {
	return cff.Parallel(ctx,
		cff.Slice(func(v int) {}, s, cff.SliceEnd(func() {})),
	)
}
