//go:build cff

package f2b

import (
	"bytes"
	"context"
	"io"

	"go.uber.org/cff"
)

// element type io.Reader is NOT assignable to the parameter type *bytes.Buffer: must be rejected.
func B(ctx context.Context, s []io.Reader) error {
	return cff.Parallel(ctx,
		cff.Slice(func(r *bytes.Buffer) {}, s),
	)
}
